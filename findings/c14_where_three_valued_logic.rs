use turdb::{Database, OwnedValue};
fn ids(db: &Database, sql: &str) -> String { match db.query(sql) { Ok(v) => { let mut x: Vec<i64> = v.into_iter().map(|r| match r.values[0] { OwnedValue::Int(i) => i, _ => -1 }).collect(); x.sort(); format!("{:?}", x) }, Err(e) => format!("ERR {}", e.to_string().chars().take(80).collect::<String>()) } }
fn setup() -> (tempfile::TempDir, Database) {
    let dir = tempfile::tempdir().unwrap();
    let db = Database::create(dir.path().join("db")).unwrap();
    db.execute("CREATE TABLE t (id INT PRIMARY KEY, v INT, s TEXT)").unwrap();
    db.execute("INSERT INTO t VALUES (1, 3, 'abc')").unwrap();
    db.execute("INSERT INTO t VALUES (2, 7, 'xyz')").unwrap();
    db.execute("INSERT INTO t VALUES (3, NULL, NULL)").unwrap();
    (dir, db)
}
fn run(cases: &[(&str, &str)]) {
    let (_d, db) = setup();
    let mut bad = vec![];
    for (w, want) in cases {
        let got = ids(&db, &format!("SELECT id FROM t WHERE {}", w));
        if &got != want { bad.push(format!("WHERE {} -> {} (expected {})", w, got, want)); }
    }
    assert!(bad.is_empty(), "{:#?}", bad);
}
#[test]
fn not_and_null_comparisons() {
    run(&[("v > 5", "[2]"), ("NOT (v > 5)", "[1]"), ("v = NULL", "[]"), ("v <> 3", "[2]"), ("v IS NULL", "[3]"), ("NOT (v IS NULL)", "[1, 2]"),
          ("v > 5 OR v IS NULL", "[2, 3]"), ("NOT (v > 5 AND s = 'xyz')", "[1]"), ("NOT (v > 5 OR v < 5)", "[]"), ("NOT NOT (v > 5)", "[2]"),
          ("NOT (v > 5 OR s = 'abc')", "[]"), ("NOT (v < 5 AND s = 'xyz')", "[1, 2]")]);
}
#[test]
fn in_between_like_with_nulls() {
    run(&[("v IN (3, NULL)", "[1]"), ("v NOT IN (3, NULL)", "[]"), ("v NOT IN (3)", "[2]"), ("v IN (3, 7)", "[1, 2]"),
          ("v BETWEEN 1 AND 5", "[1]"), ("NOT (v BETWEEN 1 AND 5)", "[2]"), ("v NOT BETWEEN 1 AND 5", "[2]"),
          ("s LIKE 'a%'", "[1]"), ("NOT (s LIKE 'a%')", "[2]"), ("s NOT LIKE 'a%'", "[2]")]);
}
