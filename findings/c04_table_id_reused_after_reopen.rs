use tempfile::tempdir;
use turdb::Database;
use turdb::storage::TableFileHeader;

fn table_ids(p: &std::path::Path) -> Vec<(String, u64)> {
    let mut out = vec![];
    for d in std::fs::read_dir(p).unwrap() {
        let d = d.unwrap().path();
        if !d.is_dir() { continue; }
        for f in std::fs::read_dir(&d).unwrap() {
            let f = f.unwrap().path();
            if f.extension().map(|e| e == "tbd").unwrap_or(false) {
                let b = std::fs::read(&f).unwrap();
                if let Ok(h) = TableFileHeader::from_bytes(&b[..128]) { out.push((f.strip_prefix(p).unwrap().display().to_string(), h.table_id())); }
            }
        }
    }
    out.sort();
    out
}

#[test]
fn table_ids_stay_unique_across_reopen() {
    let dir = tempdir().unwrap();
    let p = dir.path().join("db");
    { let db = Database::create(&p).unwrap(); db.close().unwrap(); }
    { let db = Database::open(&p).unwrap();
      db.execute("CREATE TABLE t (id BIGINT PRIMARY KEY, v BIGINT)").unwrap();
      db.close().unwrap(); }
    let ids = table_ids(&p);
    eprintln!("{:?}", ids);
    let mut seen = std::collections::HashSet::new();
    for (name, id) in &ids { assert!(seen.insert(*id), "table id {} is used by two files (second: {})", id, name); }
}
