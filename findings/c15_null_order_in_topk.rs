use tempfile::tempdir;
use turdb::Database;
#[test]
fn nulls_first_ascending_last_descending_with_limit() {
    let dir = tempdir().unwrap();
    let db = Database::create(&dir.path().join("db")).unwrap();
    db.execute("CREATE TABLE t (id BIGINT PRIMARY KEY, v BIGINT)").unwrap();
    db.execute("INSERT INTO t VALUES (1, 30)").unwrap();
    db.execute("INSERT INTO t VALUES (2, NULL)").unwrap();
    db.execute("INSERT INTO t VALUES (3, 10)").unwrap();
    db.execute("INSERT INTO t VALUES (4, 20)").unwrap();
    let f = |q: &str| db.query(q).unwrap().iter().map(|r| format!("{:?}", r.values[0])).collect::<Vec<_>>();
    let asc = f("SELECT v FROM t ORDER BY v LIMIT 2");
    let desc = f("SELECT v FROM t ORDER BY v DESC LIMIT 2");
    eprintln!("asc={:?} desc={:?}", asc, desc);
    assert_eq!(asc, vec!["Null", "Int(10)"], "NULL sorts before every non-NULL value ascending");
    assert_eq!(desc, vec!["Int(30)", "Int(20)"], "and after them descending");
}
