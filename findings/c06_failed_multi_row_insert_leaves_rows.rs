use tempfile::tempdir;
use turdb::Database;

#[test]
fn failing_multi_row_insert_has_no_effect() {
    let dir = tempdir().unwrap();
    let db = Database::create(&dir.path().join("db")).unwrap();
    db.execute("CREATE TABLE t (id BIGINT PRIMARY KEY, v BIGINT CHECK (v >= 0))").unwrap();
    let r = db.execute("INSERT INTO t VALUES (1, 10), (2, -5)");
    assert!(r.is_err(), "second row violates CHECK");
    let n = db.query("SELECT id FROM t").unwrap().len();
    assert_eq!(n, 0, "a failing statement must leave no rows behind");
}

#[test]
fn failing_multi_row_update_has_no_effect() {
    let dir = tempdir().unwrap();
    let db = Database::create(&dir.path().join("db")).unwrap();
    db.execute("CREATE TABLE t (id BIGINT PRIMARY KEY, v BIGINT CHECK (v < 100))").unwrap();
    db.execute("INSERT INTO t VALUES (1, 10)").unwrap();
    db.execute("INSERT INTO t VALUES (2, 60)").unwrap();
    let r = db.execute("UPDATE t SET v = v + 50");
    assert!(r.is_err(), "row 2 would become 110 and violate CHECK");
    let rows = db.query("SELECT v FROM t WHERE id = 1").unwrap();
    assert_eq!(format!("{:?}", rows[0].values[0]), "Int(10)", "row 1 must keep its value when the statement fails");
}
