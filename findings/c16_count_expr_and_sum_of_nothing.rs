use turdb::{Database, OwnedValue};
fn q(db: &Database, sql: &str) -> Vec<Vec<OwnedValue>> { db.query(sql).unwrap().into_iter().map(|x| x.values).collect() }
fn setup() -> (tempfile::TempDir, Database) {
    let dir = tempfile::tempdir().unwrap();
    let db = Database::create(dir.path().join("db")).unwrap();
    db.execute("CREATE TABLE e (id INT PRIMARY KEY, v INT, g INT)").unwrap();
    db.execute("CREATE TABLE t (id INT PRIMARY KEY, v INT, f FLOAT, g INT)").unwrap();
    db.execute("INSERT INTO t VALUES (1, 5, 1.5, 1)").unwrap();
    db.execute("INSERT INTO t VALUES (2, NULL, NULL, 1)").unwrap();
    db.execute("INSERT INTO t VALUES (3, -5, 2.5, 2)").unwrap();
    db.execute("INSERT INTO t VALUES (4, NULL, NULL, NULL)").unwrap();
    (dir, db)
}
use OwnedValue::{Int, Null};
#[test]
fn count_expr_ignores_nulls() {
    let (_d, db) = setup();
    assert_eq!(q(&db, "SELECT COUNT(v) FROM t"), vec![vec![Int(2)]]);
    assert_eq!(q(&db, "SELECT COUNT(v), COUNT(*) FROM t"), vec![vec![Int(2), Int(4)]]);
    assert_eq!(q(&db, "SELECT COUNT(*), COUNT(v) FROM t"), vec![vec![Int(4), Int(2)]]);
    assert_eq!(q(&db, "SELECT g, COUNT(*), COUNT(v) FROM t GROUP BY g ORDER BY g"),
               vec![vec![Null, Int(1), Int(0)], vec![Int(1), Int(2), Int(1)], vec![Int(2), Int(1), Int(1)]]);
    assert_eq!(q(&db, "SELECT COUNT(*), COUNT(v) FROM e"), vec![vec![Int(0), Int(0)]]);
}
#[test]
fn sum_of_nothing_is_null() {
    let (_d, db) = setup();
    assert_eq!(q(&db, "SELECT SUM(v) FROM e"), vec![vec![Null]]);
    assert_eq!(q(&db, "SELECT SUM(v) FROM t WHERE id = 2"), vec![vec![Null]], "SUM over only NULLs");
    assert_eq!(q(&db, "SELECT SUM(v) FROM t"), vec![vec![Int(0)]], "5 + -5");
    assert_eq!(q(&db, "SELECT g, SUM(v) FROM t GROUP BY g ORDER BY g"), vec![vec![Null, Null], vec![Int(1), Int(5)], vec![Int(2), Int(-5)]]);
}
