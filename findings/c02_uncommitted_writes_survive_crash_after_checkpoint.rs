use turdb::{Database, OwnedValue};
fn main() {
    let a: Vec<String> = std::env::args().collect();
    let p = std::path::Path::new(&a[2]);
    match a[1].as_str() {
        "w" => {
            let db = Database::create(p).unwrap();
            db.execute("PRAGMA WAL=ON").unwrap();
            db.execute("CREATE TABLE t (id INT PRIMARY KEY, v INT)").unwrap();
            db.execute("INSERT INTO t VALUES (1, 100)").unwrap();
            if a.len() > 3 { println!("{:?}", db.execute("PRAGMA WAL_CHECKPOINT").map(|_| ())); }
            db.execute("BEGIN").unwrap();
            db.execute("INSERT INTO t VALUES (2, 200)").unwrap();
            db.execute("UPDATE t SET v = 999 WHERE id = 1").unwrap();
            // crash: no COMMIT, no Drop
            std::process::abort();
        }
        _ => {
            let db = Database::open(p).unwrap();
            let rows: Vec<Vec<OwnedValue>> = db.query("SELECT id, v FROM t ORDER BY id").unwrap().into_iter().map(|r| r.values).collect();
            println!("after reopen: {:?}", rows);
            let idx: Vec<Vec<OwnedValue>> = db.query("SELECT id, v FROM t WHERE id = 2").unwrap().into_iter().map(|r| r.values).collect();
            println!("pk lookup id=2: {:?}", idx);
        }
    }
}
