use std::sync::Arc;
use turdb::memory::MemoryBudget;
use turdb::storage::{PageCache, PageKey};

#[test]
fn failed_init_does_not_leak_cache_budget() {
    let budget = Arc::new(MemoryBudget::with_limit(4 * 1024 * 1024));
    let cache = PageCache::with_budget(64, Some(Arc::clone(&budget))).unwrap();
    let before = budget.stats().cache_used;
    for i in 0..5 {
        let r = cache.get_or_insert(PageKey::new(1, i), |_| eyre::bail!("disk read failed"));
        assert!(r.is_err());
    }
    assert_eq!(cache.len(), 0, "nothing was cached");
    assert_eq!(budget.stats().cache_used, before, "budget accounting for cached pages must return to zero when the cache is empty");
}
