use tempfile::tempdir;
use turdb::Database;
#[test]
fn order_by_mixed_int_float_expression() {
    let dir = tempdir().unwrap();
    let db = Database::create(&dir.path().join("db")).unwrap();
    db.execute("CREATE TABLE t (id BIGINT PRIMARY KEY, f FLOAT, i BIGINT)").unwrap();
    db.execute("INSERT INTO t VALUES (1, 3, 30)").unwrap();
    db.execute("INSERT INTO t VALUES (2, 1.5, 10)").unwrap();
    db.execute("INSERT INTO t VALUES (3, 2, 20)").unwrap();
    let a = db.query("SELECT id FROM t ORDER BY f").unwrap();
    eprintln!("by f: {:?}", a.iter().map(|r| format!("{:?}", r.values[0])).collect::<Vec<_>>());
    let b = db.query("SELECT id, f FROM t ORDER BY f DESC").unwrap();
    eprintln!("by f desc: {:?}", b.iter().map(|r| format!("{:?}", r.values)).collect::<Vec<_>>());
    for q in ["SELECT id FROM t ORDER BY i", "SELECT id, i FROM t ORDER BY i", "SELECT id, f FROM t ORDER BY f", "SELECT id FROM t ORDER BY f ASC", "SELECT * FROM t ORDER BY f", "SELECT id FROM t ORDER BY i DESC"] {
        let r = db.query(q).unwrap();
        eprintln!("Q {} -> {:?}", q, r.iter().map(|r| format!("{:?}", r.values[0])).collect::<Vec<_>>());
    }
    let ids: Vec<String> = a.iter().map(|r| format!("{:?}", r.values[0])).collect();
    assert_eq!(ids, vec!["Int(2)", "Int(3)", "Int(1)"]);
}
