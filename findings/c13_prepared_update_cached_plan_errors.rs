use tempfile::tempdir;
use turdb::{Database, OwnedValue};

fn frames(db: &Database) -> u32 {
    match db.execute("PRAGMA wal_frame_count").unwrap() {
        turdb::ExecuteResult::Pragma { value, .. } => value.unwrap().parse().unwrap(),
        _ => panic!(),
    }
}
fn wal_bytes(p: &std::path::Path) -> u64 {
    let mut t = 0;
    if let Ok(rd) = std::fs::read_dir(p.join("wal")) {
        for e in rd { t += e.unwrap().metadata().unwrap().len(); }
    }
    t
}

#[test]
fn prepared_update_param_only_writes_no_wal() {
    let dir = tempdir().unwrap();
    let p = dir.path().join("db");
    let db = Database::create(&p).unwrap();
    db.execute("PRAGMA WAL=ON").unwrap();
    db.execute("CREATE TABLE t (id BIGINT PRIMARY KEY, v BIGINT)").unwrap();
    db.execute("INSERT INTO t VALUES (1, 10)").unwrap();
    let stmt = db.prepare("UPDATE t SET v = ? WHERE id = ?").unwrap();
    // first execution builds the cached plan, subsequent use the fast path
    let b0 = wal_bytes(&p);
    db.execute_with_cached_plan(&stmt, &[OwnedValue::Int(11), OwnedValue::Int(1)]).unwrap();
    let b1 = wal_bytes(&p);
    let r2 = db.execute_with_cached_plan(&stmt, &[OwnedValue::Int(12), OwnedValue::Int(1)]);
    eprintln!("second: {:?}", r2.as_ref().map(|_| ()).map_err(|e| e.to_string()));
    let b2 = wal_bytes(&p);
    let r3 = db.execute_with_cached_plan(&stmt, &[OwnedValue::Int(13), OwnedValue::Int(1)]);
    eprintln!("third: {:?}", r3.as_ref().map(|_| ()).map_err(|e| e.to_string()));
    let b3 = wal_bytes(&p);
    // rows loaded through the prepared INSERT fast path
    let ins = db.prepare("INSERT INTO t VALUES (?, ?)").unwrap();
    for i in 2..6 { let r = db.execute_with_cached_plan(&ins, &[OwnedValue::Int(i), OwnedValue::Int(i*10)]); eprintln!("ins {} {:?}", i, r.map(|_| ()).map_err(|e| e.to_string())); }
    let b4 = wal_bytes(&p);
    let r5 = db.execute_with_cached_plan(&stmt, &[OwnedValue::Int(99), OwnedValue::Int(4)]);
    eprintln!("upd row4: {:?}", r5.as_ref().map(|_| ()).map_err(|e| e.to_string()));
    let b5 = wal_bytes(&p);
    eprintln!("b4={} b5={} rows={:?}", b4, b5, db.query("SELECT id, v FROM t").map(|r| r.len()).map_err(|e| e.to_string()));
    let rows = db.query("SELECT v FROM t WHERE id = 1").unwrap();
    eprintln!("wal bytes: {} {} {} {} rows={:?} frames={}", b0, b1, b2, b3, rows, frames(&db));
    assert!(b1 > b0, "first prepared update logged");
    assert!(b2 > b1, "second prepared update (cached plan) must append to the WAL");
    assert!(b3 > b2, "third prepared update (cached plan) must append to the WAL");
}

#[test]
fn bound_float_parameter_behaves_like_the_float_literal() {
    let dir = tempdir().unwrap();
    let db = Database::create(&dir.path().join("db")).unwrap();
    db.execute("CREATE TABLE t (id BIGINT PRIMARY KEY, v BIGINT)").unwrap();
    db.execute("INSERT INTO t VALUES (1, 10)").unwrap();
    let lit = db.query("SELECT id FROM t WHERE 1.0 / 2 = 0.5").unwrap().len();
    let st = db.prepare("SELECT id FROM t WHERE ? / 2 = 0.5").unwrap();
    let bound = st.bind(OwnedValue::Float(1.0)).query(&db).map(|r| r.len()).map_err(|e| e.to_string());
    eprintln!("literal rows={} bound={:?}", lit, bound);
    assert_eq!(bound, Ok(lit), "a bound Float(1.0) must behave like the literal 1.0 (it is re-rendered as the SQL text `1`)");
}
