use turdb::Database;
fn main() {
    let p = std::path::PathBuf::from(std::env::args().nth(1).unwrap());
    let db = Database::create(&p).unwrap();
    db.execute("CREATE TABLE old_table (id BIGINT PRIMARY KEY, v TEXT)").unwrap();
    db.execute("INSERT INTO old_table VALUES (1, 'x')").unwrap();
    eprintln!("=== MARK ddl");
    db.execute("CREATE TABLE new_table (id BIGINT PRIMARY KEY)").unwrap();
    eprintln!("=== MARK after");
    std::mem::forget(db);
}
