use tempfile::tempdir;
use turdb::{Database, OwnedValue};

#[test]
fn large_blob_that_is_valid_utf8_reads_back_as_blob() {
    let dir = tempdir().unwrap();
    let db = Database::create(&dir.path().join("db")).unwrap();
    db.execute("CREATE TABLE t (id BIGINT PRIMARY KEY, b BLOB)").unwrap();
    let bytes = vec![b'a'; 5000];
    db.execute_with_params("INSERT INTO t VALUES (?, ?)", &[OwnedValue::Int(1), OwnedValue::Blob(bytes.clone())]).unwrap();
    let rows = db.query("SELECT b FROM t WHERE id = 1").unwrap();
    match &rows[0].values[0] {
        OwnedValue::Blob(b) => assert_eq!(b, &bytes),
        other => panic!("stored Blob(5000 bytes of 'a') but SELECT returned {:?}", match other { OwnedValue::Text(s) => format!("Text({} bytes)", s.len()), o => format!("{:?}", o).chars().take(60).collect() }),
    }
}
