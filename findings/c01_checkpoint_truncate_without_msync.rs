use turdb::Database;
fn main() {
    let p = std::path::PathBuf::from(std::env::args().nth(1).unwrap());
    let mode = std::env::args().nth(2).unwrap_or_default();
    let db = Database::create(&p).unwrap();
    db.execute("PRAGMA WAL=ON").unwrap();
    db.execute("CREATE TABLE t (id BIGINT PRIMARY KEY, v TEXT)").unwrap();
    eprintln!("=== MARK insert");
    db.execute("INSERT INTO t VALUES (1, 'acknowledged')").unwrap();
    eprintln!("=== MARK checkpoint");
    if mode == "ckpt" { let info = db.checkpoint().unwrap(); eprintln!("checkpoint info {:?}", info); }
    eprintln!("=== MARK after");
    std::mem::forget(db); // simulated crash: no Drop, no close
}
