//! C10 (fixed): INSERT stores non-unique secondary index entries under encode(cols) || row_key; UPDATE and DELETE used
//! encode(cols) only. Before the fix: a deleted row is still returned by `WHERE k = 10`, an updated row is found under its old
//! key and not under its new one. Passes after the fix.
use turdb::{Database, OwnedValue};
fn ids(db: &Database, sql: &str) -> Vec<i64> { let mut v: Vec<i64> = db.query(sql).unwrap().into_iter().map(|r| match r.values[0] { OwnedValue::Int(i) => i, _ => panic!() }).collect(); v.sort(); v }
#[test]
fn delete_and_update_on_nonunique_index() {
    let dir = tempfile::tempdir().unwrap();
    let db = Database::create(dir.path().join("db")).unwrap();
    db.execute("CREATE TABLE t (id INT PRIMARY KEY, k INT, v TEXT)").unwrap();
    db.execute("CREATE INDEX t_k ON t (k)").unwrap();
    for i in 1..=4 { db.execute(&format!("INSERT INTO t VALUES ({}, {}, 'r{}')", i, 10 * ((i + 1) / 2), i)).unwrap(); }
    assert_eq!(ids(&db, "SELECT id FROM t WHERE k = 10"), vec![1, 2]);
    db.execute("DELETE FROM t WHERE id = 1").unwrap();
    assert_eq!(ids(&db, "SELECT id FROM t WHERE k = 10"), ids(&db, "SELECT id FROM t WHERE k + 0 = 10"), "deleted row still returned through the index");
    db.execute("UPDATE t SET k = 30 WHERE id = 3").unwrap();
    assert_eq!(ids(&db, "SELECT id FROM t WHERE k = 20"), vec![4], "updated row still found under its old key");
    assert_eq!(ids(&db, "SELECT id FROM t WHERE k = 30"), vec![3], "updated row not found under its new key");
    db.execute("UPDATE t SET k = 30 WHERE id = 4").unwrap();
    assert_eq!(ids(&db, "SELECT id FROM t WHERE k = 30"), vec![3, 4]);
}
