use turdb::{Database, OwnedValue};
fn rows(db: &Database, sql: &str) -> Vec<Vec<OwnedValue>> { db.query(sql).unwrap().into_iter().map(|r| r.values).collect() }
#[test]
fn rollback_of_insert_leaks_secondary_index_entry() {
    let dir = tempfile::tempdir().unwrap();
    let db = Database::create(dir.path().join("db")).unwrap();
    db.execute("CREATE TABLE t (id INT PRIMARY KEY, k INT, v TEXT)").unwrap();
    db.execute("CREATE INDEX t_k ON t (k)").unwrap();
    db.execute("INSERT INTO t VALUES (1, 10, 'a')").unwrap();
    db.execute("BEGIN").unwrap();
    db.execute("INSERT INTO t VALUES (2, 20, 'b')").unwrap();
    db.execute("ROLLBACK").unwrap();
    eprintln!("scan: {:?}", rows(&db, "SELECT id, k FROM t ORDER BY id"));
    let r = db.query("SELECT id, k FROM t WHERE k = 20");
    eprintln!("by index: {:?}", r.as_ref().map(|v| v.iter().map(|x| x.values.clone()).collect::<Vec<_>>()).map_err(|e| e.to_string()));
    let r2 = db.query("SELECT COUNT(*) FROM t WHERE k = 20");
    eprintln!("count by index: {:?}", r2.as_ref().map(|v| v.iter().map(|x| x.values.clone()).collect::<Vec<_>>()).map_err(|e| e.to_string()));
    // row id reuse: the next insert gets the rolled-back row id? then the stale entry k=20 points at it
    db.execute("INSERT INTO t VALUES (3, 30, 'c')").unwrap();
    let r3 = db.query("SELECT id, k FROM t WHERE k = 20");
    eprintln!("after new insert, k=20 by index: {:?}", r3.as_ref().map(|v| v.iter().map(|x| x.values.clone()).collect::<Vec<_>>()).map_err(|e| e.to_string()));
    assert!(matches!(&r, Ok(v) if v.is_empty()));
    assert!(matches!(&r3, Ok(v) if v.is_empty()), "a row that does not have k = 20 is returned for k = 20");
}
#[test]
fn update_from_does_not_maintain_index() {
    let dir = tempfile::tempdir().unwrap();
    let db = Database::create(dir.path().join("db")).unwrap();
    db.execute("CREATE TABLE t (id INT PRIMARY KEY, k INT)").unwrap();
    db.execute("CREATE INDEX t_k ON t (k)").unwrap();
    db.execute("CREATE TABLE s (sid INT, sk INT)").unwrap();
    db.execute("INSERT INTO t VALUES (1, 10)").unwrap();
    db.execute("INSERT INTO s VALUES (1, 40)").unwrap();
    db.execute("UPDATE t SET k = s.sk FROM s WHERE t.id = s.sid").unwrap();
    assert_eq!(rows(&db, "SELECT id, k FROM t"), vec![vec![OwnedValue::Int(1), OwnedValue::Int(40)]]);
    let new = rows(&db, "SELECT id FROM t WHERE k = 40");
    let old = rows(&db, "SELECT id FROM t WHERE k = 10");
    eprintln!("k=40: {:?}  k=10: {:?}", new, old);
    assert_eq!(new, vec![vec![OwnedValue::Int(1)]], "row not found through the index under its new key");
    assert!(old.is_empty(), "row still found under its old key");
}
fn q(db: &Database, sql: &str) -> String { format!("{:?}", db.query(sql).map(|v| v.into_iter().map(|x| x.values).collect::<Vec<_>>()).map_err(|e| e.to_string())) }
#[test]
fn delete_and_update_on_nonunique_index() {
    let dir = tempfile::tempdir().unwrap();
    let db = Database::create(dir.path().join("db")).unwrap();
    db.execute("CREATE TABLE t (id INT PRIMARY KEY, k INT, v TEXT)").unwrap();
    db.execute("CREATE INDEX t_k ON t (k)").unwrap();
    for i in 1..=4 { db.execute(&format!("INSERT INTO t VALUES ({}, {}, 'r{}')", i, 10 * ((i + 1) / 2), i)).unwrap(); }   // k: 10,10,20,20
    eprintln!("k=10 {}", q(&db, "SELECT id FROM t WHERE k = 10"));
    db.execute("DELETE FROM t WHERE id = 1").unwrap();
    eprintln!("after delete id=1: k=10 {}   scan {}", q(&db, "SELECT id FROM t WHERE k = 10"), q(&db, "SELECT id FROM t WHERE k + 0 = 10"));
    db.execute("UPDATE t SET k = 30 WHERE id = 3").unwrap();
    eprintln!("after update id=3 k->30: k=20 {} k=30 {}  scan20 {} scan30 {}", q(&db, "SELECT id FROM t WHERE k = 20"), q(&db, "SELECT id FROM t WHERE k = 30"), q(&db, "SELECT id FROM t WHERE k + 0 = 20"), q(&db, "SELECT id FROM t WHERE k + 0 = 30"));
    db.execute("UPDATE t SET k = 30 WHERE id = 4").unwrap();
    eprintln!("after update id=4 k->30: k=30 {} scan30 {}", q(&db, "SELECT id FROM t WHERE k = 30"), q(&db, "SELECT id FROM t WHERE k + 0 = 30"));
    eprintln!("explain {}", q(&db, "EXPLAIN SELECT id FROM t WHERE k = 30"));
}
