use tempfile::tempdir;
use turdb::{Database, OwnedValue};

fn db() -> (tempfile::TempDir, Database) {
    let dir = tempdir().unwrap();
    let db = Database::create(&dir.path().join("db")).unwrap();
    db.execute("CREATE TABLE t (id BIGINT PRIMARY KEY, name TEXT NOT NULL, age BIGINT CHECK (age >= 0), code TEXT UNIQUE)").unwrap();
    db.execute("CREATE INDEX idx_name ON t (name)").unwrap();
    (dir, db)
}
fn row(id: i64, name: Option<&str>, age: i64, code: &str) -> Vec<OwnedValue> {
    vec![OwnedValue::Int(id), name.map(|s| OwnedValue::Text(s.into())).unwrap_or(OwnedValue::Null), OwnedValue::Int(age), OwnedValue::Text(code.into())]
}
fn report(name: &str, ok: bool, detail: String) -> bool { eprintln!("{:28} {} {}", name, if ok { "ok  " } else { "FAIL" }, detail); ok }

#[test]
fn batch_apis_equal_row_inserts() {
    let mut all = true;
    // 1 duplicate primary key through insert_batch
    { let (_d, db) = db();
      let r = db.insert_batch("t", &[row(1, Some("a"), 1, "c1"), row(1, Some("b"), 2, "c2")]);
      let n = db.query("SELECT id FROM t").map(|r| r.len()).unwrap_or(999);
      all &= report("batch:duplicate_pk", r.is_err() && n <= 1, format!("result={:?} rows={}", r.as_ref().map_err(|e| e.to_string()), n)); }
    // 2 NOT NULL
    { let (_d, db) = db();
      let r = db.insert_batch("t", &[row(1, None, 1, "c1")]);
      all &= report("batch:not_null", r.is_err(), format!("result={:?}", r.as_ref().map_err(|e| e.to_string()))); }
    // 3 CHECK
    { let (_d, db) = db();
      let r = db.insert_batch("t", &[row(1, Some("a"), -5, "c1")]);
      all &= report("batch:check", r.is_err(), format!("result={:?}", r.as_ref().map_err(|e| e.to_string()))); }
    // 4 UNIQUE
    { let (_d, db) = db();
      let r = db.insert_batch("t", &[row(1, Some("a"), 1, "same"), row(2, Some("b"), 2, "same")]);
      all &= report("batch:unique", r.is_err(), format!("result={:?}", r.as_ref().map_err(|e| e.to_string()))); }
    // 5 readable + index lookup
    { let (_d, db) = db();
      let r = db.insert_batch("t", &[row(1, Some("alice"), 1, "c1"), row(2, Some("bob"), 2, "c2")]);
      let scan = db.query("SELECT id, name FROM t").map(|r| format!("{:?}", r)).unwrap_or_else(|e| format!("ERR {}", e));
      let idx = db.query("SELECT id FROM t WHERE name = 'bob'").map(|r| r.len()).unwrap_or(999);
      let pk = db.query("SELECT name FROM t WHERE id = 2").map(|r| r.len()).unwrap_or(999);
      all &= report("batch:readable", r.is_ok() && scan.contains("alice") && scan.contains("bob"), format!("{}", &scan[..scan.len().min(120)]));
      all &= report("batch:secondary_index", idx == 1, format!("rows via index={}", idx));
      all &= report("batch:pk_lookup", pk == 1, format!("rows via pk={}", pk));
      let dup = db.execute("INSERT INTO t VALUES (2, 'x', 1, 'c9')");
      all &= report("batch:later_sql_dup_pk", dup.is_err(), format!("{:?}", dup.map(|_| ()).map_err(|e| e.to_string()))); }
    // 6 bulk_insert
    { let (_d, db) = db();
      let r = db.bulk_insert("t", vec![row(1, Some("a"), 1, "c1"), row(1, Some("b"), 2, "c2")]);
      let n = db.query("SELECT id FROM t").map(|r| r.len()).unwrap_or(999);
      all &= report("bulk:duplicate_pk", r.is_err() && n <= 1, format!("result={:?} rows={}", r.as_ref().map_err(|e| e.to_string()), n)); }
    // 7 prepared INSERT re-executed (insert_cached)
    { let (_d, db) = db();
      let st = db.prepare("INSERT INTO t VALUES (?, ?, ?, ?)").unwrap();
      let _ = db.execute_with_cached_plan(&st, &row(1, Some("a"), 1, "c1"));
      let _ = db.execute_with_cached_plan(&st, &row(2, Some("b"), 1, "c2"));
      let r3 = db.execute_with_cached_plan(&st, &row(2, Some("c"), 1, "c3"));
      all &= report("cached:duplicate_pk", r3.is_err(), format!("{:?}", r3.map(|_| ()).map_err(|e| e.to_string())));
      let r4 = db.execute_with_cached_plan(&st, &row(4, None, 1, "c4"));
      all &= report("cached:not_null", r4.is_err(), format!("{:?}", r4.map(|_| ()).map_err(|e| e.to_string())));
      let r5 = db.execute_with_cached_plan(&st, &row(5, Some("e"), -1, "c5"));
      all &= report("cached:check", r5.is_err(), format!("{:?}", r5.map(|_| ()).map_err(|e| e.to_string())));
      let idx = db.query("SELECT id FROM t WHERE name = 'b'").map(|r| r.len()).unwrap_or(999);
      all &= report("cached:secondary_index", idx == 1, format!("rows via index={}", idx)); }
    assert!(all, "bulk-load APIs differ from row-at-a-time INSERT (see FAIL lines)");
}
