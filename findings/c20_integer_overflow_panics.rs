use tempfile::tempdir;
use turdb::Database;

fn run(sql: &str) -> String {
    let dir = tempdir().unwrap();
    let db = Database::create(&dir.path().join("db")).unwrap();
    db.execute("CREATE TABLE t (id BIGINT PRIMARY KEY, v BIGINT)").unwrap();
    db.execute("INSERT INTO t VALUES (1, 9223372036854775807)").unwrap();
    db.execute("INSERT INTO t VALUES (2, -9223372036854775807)").unwrap();
    db.execute("CREATE TABLE u (id BIGINT PRIMARY KEY, v BIGINT)").unwrap();
    db.execute("INSERT INTO u VALUES (1, 9223372036854775807)").unwrap();
    db.execute("INSERT INTO u VALUES (2, 9223372036854775807)").unwrap();
    let sql = sql.to_string();
    let r = std::panic::catch_unwind(std::panic::AssertUnwindSafe(|| if sql.starts_with("UPDATE") { db.execute(&sql).map(|r| format!("{:?}", r)) } else { db.query(&sql).map(|rows| format!("{:?}", rows)) }));
    match r {
        Ok(Ok(s)) => format!("OK {}", s),
        Ok(Err(e)) => format!("ERR {}", e),
        Err(p) => format!("PANIC {}", p.downcast_ref::<String>().cloned().or(p.downcast_ref::<&str>().map(|s| s.to_string())).unwrap_or_default()),
    }
}

#[test]
fn integer_overflow_is_an_error_not_a_crash() {
    let cases = [
        ("add", "SELECT v + 1 FROM t WHERE id = 1"),
        ("sub", "SELECT v - 2 FROM t WHERE id = 2"),
        ("mul", "SELECT v * 2 FROM t WHERE id = 1"),
        ("div", "SELECT (v - 1) / -1 FROM t WHERE id = 2"),
        ("rem", "SELECT (v - 1) % -1 FROM t WHERE id = 2"),
        ("pow", "SELECT v ^ 2 FROM t WHERE id = 1"),
        ("sum", "SELECT SUM(v) FROM (SELECT v FROM t WHERE id = 1 UNION ALL SELECT v FROM t WHERE id = 1) x"),
        ("sum2", "SELECT SUM(ABS(v)) FROM t"),
        ("neg", "SELECT -(v - 1) FROM t WHERE id = 2"),
        ("divfn", "SELECT DIV(v - 1, -1) FROM t WHERE id = 2"),
        ("abs", "SELECT ABS(v - 1) FROM t WHERE id = 2"),
        ("sumov", "SELECT SUM(v) FROM u"),
        ("ordby", "SELECT id FROM t ORDER BY v + 1"),
        ("ordmul", "SELECT id FROM t ORDER BY v * 2"),
        ("upd", "UPDATE t SET v = v + 1 WHERE id = 1"),
        ("updmul", "UPDATE t SET v = v * 2 WHERE id = 1"),
        ("upddiv", "UPDATE t SET v = (v - 1) / -1 WHERE id = 2"),
        ("updneg", "UPDATE t SET v = -(v - 1) WHERE id = 2"),
        ("where", "SELECT id FROM t WHERE v + 1 > 0"),
        ("lit", "SELECT -9223372036854775808 FROM t WHERE id = 1"),
    ];
    let mut bad = vec![];
    for (name, sql) in cases {
        let r = run(sql);
        eprintln!("{:6} {} -> {}", name, sql, &r[..r.len().min(140)]);
        if r.starts_with("PANIC") { bad.push(name); }
    }
    assert!(bad.is_empty(), "statements that panicked: {:?}", bad);
}
