use std::sync::{Arc, Barrier};
use turdb::memory::{MemoryBudget, Pool};

#[test]
fn total_usage_never_exceeds_limit_across_pools() {
    // two threads allocate in two *different* pools; each request alone fits, both together do not
    let mut worst = 0usize;
    let mut limit = 0usize;
    for _round in 0..20000 {
        let budget = Arc::new(MemoryBudget::with_limit(8 * 1024 * 1024));
        limit = budget.total_limit();
        let chunk = limit / 2 + 4096;
        let bar = Arc::new(Barrier::new(2));
        let hs: Vec<_> = [Pool::Cache, Pool::Query].into_iter().map(|pool| {
            let (b, bar) = (Arc::clone(&budget), Arc::clone(&bar));
            std::thread::spawn(move || { bar.wait(); b.allocate(pool, chunk).is_ok() })
        }).collect();
        let oks: Vec<bool> = hs.into_iter().map(|h| h.join().unwrap()).collect();
        let used = budget.total_used();
        if used > worst { worst = used; }
        if used > limit { eprintln!("round: both={:?} used={} limit={}", oks, used, limit); break; }
    }
    assert!(worst <= limit, "successful allocations brought total usage to {} above the limit {}", worst, limit);
}
