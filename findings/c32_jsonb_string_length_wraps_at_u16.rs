use turdb::parsing::parse_json;
use turdb::records::{JsonbBuilder, JsonbValue, JsonbView};
fn slen(v: Result<Option<JsonbValue>, eyre::Report>) -> i64 { match v { Ok(Some(JsonbValue::String(s))) => s.len() as i64, Ok(Some(_)) => -3, Ok(None) => -1, Err(_) => -2 } }
#[test]
fn text_path_string_value() {
    for n in [65535usize, 65536, 70000] {
        let doc = format!("{{\"a\": \"{}\", \"b\": 7}}", "x".repeat(n));
        let bytes = parse_json(&doc).unwrap().value.to_jsonb_bytes();
        assert_eq!(slen(JsonbView::new(&bytes).unwrap().get("a")), n as i64, "string of {} bytes read back with another length", n);
    }
}
#[test]
fn text_path_object_key() {
    let key = "k".repeat(70000);
    let doc = format!("{{\"{}\": \"v\", \"z\": 1}}", key);
    let bytes = parse_json(&doc).unwrap().value.to_jsonb_bytes();
    let view = JsonbView::new(&bytes).unwrap();
    assert_eq!(slen(view.get(&key)), 1, "a 70000-byte key cannot be looked up");
}
#[test]
fn builder_path_string_value_and_key() {
    let mut b = JsonbBuilder::new_object();
    b.set("a", "x".repeat(70000));
    b.set("b", 7i64);
    let bytes = b.build();
    assert_eq!(slen(JsonbView::new(&bytes).unwrap().get("a")), 70000, "builder: long string read back with another length");
    let key = "k".repeat(70000);
    let mut b = JsonbBuilder::new_object();
    b.set(key.clone(), "v");
    let bytes = b.build();
    assert_eq!(slen(JsonbView::new(&bytes).unwrap().get(&key)), 1, "builder: a 70000-byte key cannot be looked up");
}
