use tempfile::tempdir;
use turdb::Database;

#[test]
fn user_schema_survives_reopen() {
    let dir = tempdir().unwrap();
    let p = dir.path().join("db");
    {
        let db = Database::create(&p).unwrap();
        db.execute("CREATE SCHEMA app").unwrap();
        db.execute("CREATE TABLE app.t (id BIGINT PRIMARY KEY, v TEXT)").unwrap();
        db.execute("INSERT INTO app.t VALUES (1, 'kept')").unwrap();
        db.close().unwrap();
    }
    let db = Database::open(&p).expect("reopening a database that has a user schema must succeed");
    let rows = db.query("SELECT v FROM app.t WHERE id = 1").unwrap();
    assert_eq!(rows.len(), 1);
    // schema ids keep increasing after reopen
    db.execute("CREATE SCHEMA app2").unwrap();
    db.execute("CREATE TABLE app2.u (id BIGINT PRIMARY KEY)").unwrap();
}
