// C32 J7 MASK-FITS — demonstration (run as /repo/tests/<name>.rs): all 8 tests FAIL on the unchanged tree.
// An entry word has 24 payload bits; both JSONB writers store `data offset & 0x00FFFFFF`, so any element whose data lies behind
// the first 16 MiB of a container's data section is read from the wrapped offset.
use turdb::parsing::parse_json;
use turdb::records::{JsonbBuilder, JsonbBuilderValue, JsonbValue, JsonbView};

fn first_char(v: Result<Option<JsonbValue>, eyre::Report>) -> String {
    match v {
        Ok(Some(JsonbValue::String(s))) => format!("S:{}:{}", s.len(), s.chars().next().unwrap_or('?')),
        Ok(Some(JsonbValue::Number(n))) => format!("N:{}", n),
        Ok(Some(JsonbValue::Array(a))) => format!("A[{}]", first_char(a.array_get(0))),
        Ok(Some(_)) => "other".into(),
        Ok(None) => "none".into(),
        Err(e) => format!("err:{}", e),
    }
}
fn ch(i: usize) -> char { (b'a' + (i % 26) as u8) as char }
fn s60k(i: usize) -> String { std::iter::repeat(ch(i)).take(60_000).collect() }

#[test]
fn builder_number_offset() {
    let mut b = JsonbBuilder::new_array();
    for i in 0..2_100_000usize { b.push(i as f64); }
    let bytes = b.build();
    let v = JsonbView::new(&bytes).unwrap();
    assert_eq!(first_char(v.array_get(5)), "N:5");
    assert_eq!(first_char(v.array_get(2_097_155)), "N:2097155", "number element behind the 16 MiB data offset");
}
#[test]
fn builder_string_offset() {
    let mut b = JsonbBuilder::new_array();
    for i in 0..300usize { b.push(s60k(i)); }
    let bytes = b.build();
    let v = JsonbView::new(&bytes).unwrap();
    assert_eq!(first_char(v.array_get(3)), format!("S:60000:{}", ch(3)));
    assert_eq!(first_char(v.array_get(290)), format!("S:60000:{}", ch(290)), "string element behind the 16 MiB data offset");
}
#[test]
fn builder_nested_offset() {
    let mut b = JsonbBuilder::new_array();
    for i in 0..300usize { b.push(JsonbBuilderValue::Array(vec![JsonbBuilderValue::String(s60k(i))])); }
    let bytes = b.build();
    let v = JsonbView::new(&bytes).unwrap();
    assert_eq!(first_char(v.array_get(3)), format!("A[S:60000:{}]", ch(3)));
    assert_eq!(first_char(v.array_get(290)), format!("A[S:60000:{}]", ch(290)), "nested array behind the 16 MiB data offset");
}
#[test]
fn builder_key_offset() {
    let mut b = JsonbBuilder::new_object();
    for i in 0..300usize { b.set(format!("k{:03}", i), s60k(i)); }
    let bytes = b.build();
    let v = JsonbView::new(&bytes).unwrap();
    assert_eq!(first_char(v.get("k003")), format!("S:60000:{}", ch(3)));
    assert_eq!(first_char(v.get("k290")), format!("S:60000:{}", ch(290)), "key behind the 16 MiB data offset");
}
fn text(doc: &str) -> Vec<u8> { parse_json(doc).unwrap().value.to_jsonb_bytes() }
#[test]
fn text_number_offset() {
    let mut d = String::from("[");
    for i in 0..2_100_000usize { if i > 0 { d.push(','); } d.push_str(&i.to_string()); }
    d.push(']');
    let bytes = text(&d);
    let v = JsonbView::new(&bytes).unwrap();
    assert_eq!(first_char(v.array_get(5)), "N:5");
    assert_eq!(first_char(v.array_get(2_097_155)), "N:2097155", "number element behind the 16 MiB data offset");
}
#[test]
fn text_string_offset() {
    let d = format!("[{}]", (0..300).map(|i| format!("\"{}\"", s60k(i))).collect::<Vec<_>>().join(","));
    let bytes = text(&d);
    let v = JsonbView::new(&bytes).unwrap();
    assert_eq!(first_char(v.array_get(3)), format!("S:60000:{}", ch(3)));
    assert_eq!(first_char(v.array_get(290)), format!("S:60000:{}", ch(290)), "string element behind the 16 MiB data offset");
}
#[test]
fn text_nested_offset() {
    let d = format!("[{}]", (0..300).map(|i| format!("[\"{}\"]", s60k(i))).collect::<Vec<_>>().join(","));
    let bytes = text(&d);
    let v = JsonbView::new(&bytes).unwrap();
    assert_eq!(first_char(v.array_get(3)), format!("A[S:60000:{}]", ch(3)));
    assert_eq!(first_char(v.array_get(290)), format!("A[S:60000:{}]", ch(290)), "nested array behind the 16 MiB data offset");
}
#[test]
fn text_key_offset() {
    let d = format!("{{{}}}", (0..300).map(|i| format!("\"k{:03}\": \"{}\"", i, s60k(i))).collect::<Vec<_>>().join(","));
    let bytes = text(&d);
    let v = JsonbView::new(&bytes).unwrap();
    assert_eq!(first_char(v.get("k003")), format!("S:60000:{}", ch(3)));
    assert_eq!(first_char(v.get("k290")), format!("S:60000:{}", ch(290)), "key behind the 16 MiB data offset");
}
