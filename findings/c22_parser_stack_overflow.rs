use turdb::Database;
fn main() {
    let n: usize = std::env::args().nth(2).unwrap().parse().unwrap();
    let kind = std::env::args().nth(3).unwrap_or_default();
    let db = Database::create(std::path::Path::new(&std::env::args().nth(1).unwrap())).unwrap();
    db.execute("CREATE TABLE t (id BIGINT PRIMARY KEY, j TEXT)").unwrap();
    let sql = if kind == "json" {
        format!("INSERT INTO t VALUES (1, '{}1{}')", "[".repeat(n), "]".repeat(n))
    } else {
        format!("SELECT {}1{} FROM t", "(".repeat(n), ")".repeat(n))
    };
    let r = db.execute(&sql);
    println!("returned: {:?}", r.map(|_| ()).map_err(|e| e.to_string().chars().take(80).collect::<String>()));
}
