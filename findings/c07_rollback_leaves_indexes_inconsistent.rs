use turdb::{Database, OwnedValue};
fn ids(db: &Database, sql: &str) -> Vec<i64> { let mut v: Vec<i64> = db.query(sql).unwrap().into_iter().map(|r| match r.values[0] { OwnedValue::Int(i) => i, _ => panic!() }).collect(); v.sort(); v }
#[test]
fn rollback_of_update_restores_index_entry() {
    let dir = tempfile::tempdir().unwrap();
    let db = Database::create(dir.path().join("db")).unwrap();
    db.execute("CREATE TABLE t (id INT PRIMARY KEY, k INT, u INT UNIQUE)").unwrap();
    db.execute("CREATE INDEX t_k ON t (k)").unwrap();
    db.execute("INSERT INTO t VALUES (100, 10, 1000)").unwrap();
    db.execute("INSERT INTO t VALUES (200, 20, 2000)").unwrap();
    db.execute("BEGIN").unwrap();
    db.execute("UPDATE t SET k = 30, u = 3000 WHERE id = 100").unwrap();
    db.execute("ROLLBACK").unwrap();
    eprintln!("u=1000 {:?} u=3000 {:?} k=10 {:?} k=30 {:?}", ids(&db, "SELECT id FROM t WHERE u = 1000"), ids(&db, "SELECT id FROM t WHERE u = 3000"), ids(&db, "SELECT id FROM t WHERE k = 10"), ids(&db, "SELECT id FROM t WHERE k = 30"));
    assert_eq!(ids(&db, "SELECT id FROM t WHERE u + 0 = 1000"), vec![100]);
    assert_eq!(ids(&db, "SELECT id FROM t WHERE u = 1000"), vec![100], "after ROLLBACK the row is not reachable through the UNIQUE index under its restored value");
    assert_eq!(ids(&db, "SELECT id FROM t WHERE k = 10"), vec![100], "after ROLLBACK the row is not reachable through the secondary index under its restored value");
    assert!(ids(&db, "SELECT id FROM t WHERE k = 30").is_empty());
    assert!(ids(&db, "SELECT id FROM t WHERE u = 3000").is_empty());
    let r = db.execute("INSERT INTO t VALUES (300, 30, 3000)");
    assert!(r.is_ok(), "the rolled-back value 3000 still blocks the UNIQUE column: {:?}", r.err().map(|e| e.to_string()));
}
#[test]
fn rollback_of_update_from_null_and_of_delete() {
    let dir = tempfile::tempdir().unwrap();
    let db = Database::create(dir.path().join("db")).unwrap();
    db.execute("CREATE TABLE t (id INT PRIMARY KEY, k INT, u INT UNIQUE)").unwrap();
    db.execute("CREATE INDEX t_k ON t (k)").unwrap();
    db.execute("INSERT INTO t VALUES (100, NULL, NULL)").unwrap();
    db.execute("INSERT INTO t VALUES (200, 20, 2000)").unwrap();
    db.execute("BEGIN").unwrap();
    db.execute("UPDATE t SET k = 30, u = 3000 WHERE id = 100").unwrap();
    db.execute("DELETE FROM t WHERE id = 200").unwrap();
    db.execute("ROLLBACK").unwrap();
    assert!(ids(&db, "SELECT id FROM t WHERE k = 30").is_empty(), "rolled-back key still in the secondary index");
    assert!(ids(&db, "SELECT id FROM t WHERE u = 3000").is_empty(), "rolled-back key still in the UNIQUE index");
    assert_eq!(ids(&db, "SELECT id FROM t WHERE k = 20"), vec![200], "row restored by ROLLBACK of DELETE not reachable through the secondary index");
    assert_eq!(ids(&db, "SELECT id FROM t WHERE u = 2000"), vec![200], "row restored by ROLLBACK of DELETE not reachable through the UNIQUE index");
    assert!(db.execute("INSERT INTO t VALUES (300, 30, 3000)").is_ok());
    assert!(db.execute("INSERT INTO t VALUES (400, 40, 2000)").is_err(), "UNIQUE no longer enforced for the restored row");
}
#[test]
fn rollback_to_savepoint_restores_indexes() {
    let dir = tempfile::tempdir().unwrap();
    let db = Database::create(dir.path().join("db")).unwrap();
    db.execute("CREATE TABLE t (id INT PRIMARY KEY, k INT)").unwrap();
    db.execute("CREATE INDEX t_k ON t (k)").unwrap();
    db.execute("INSERT INTO t VALUES (7, 10)").unwrap();
    db.execute("INSERT INTO t VALUES (8, 10)").unwrap();
    db.execute("BEGIN").unwrap();
    db.execute("UPDATE t SET k = 11 WHERE id = 7").unwrap();
    db.execute("SAVEPOINT a").unwrap();
    db.execute("UPDATE t SET k = 12 WHERE id = 7").unwrap();
    db.execute("INSERT INTO t VALUES (9, 12)").unwrap();
    db.execute("ROLLBACK TO a").unwrap();
    db.execute("COMMIT").unwrap();
    assert_eq!(ids(&db, "SELECT id FROM t WHERE k = 11"), vec![7]);
    assert!(ids(&db, "SELECT id FROM t WHERE k = 12").is_empty());
    assert_eq!(ids(&db, "SELECT id FROM t WHERE k = 10"), vec![8]);
}
