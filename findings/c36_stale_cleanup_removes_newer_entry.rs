use std::sync::atomic::{AtomicBool, Ordering};
use std::sync::Arc;
use std::time::Duration;
use turdb::database::page_locks::{PageLockManager, DEMO_STALL};

// Schedule (the only instrumentation is a sleep in try_cleanup between `entry.release()` and `self.locks.lock()`
// for thread T1; it changes no logic):
//   T1 drops its write guard: ref_count 1->0, stalls before taking the shard mutex
//   main: lock+unlock page (entry E1 revived then removed), lock page again (new entry E2) and KEEP it
//   T1 resumes: sees E1.ref_count == 0, removes the map entry *by key* -> removes E2
//   T4: page_write on the same page creates E3 and acquires at once although E2's write lock is still held
#[test]
fn stale_cleanup_must_not_break_mutual_exclusion() {
    let mgr = Arc::new(PageLockManager::new());
    let m1 = Arc::clone(&mgr);
    let t1 = std::thread::spawn(move || {
        let g1 = m1.page_write(1, 1);
        DEMO_STALL.with(|s| s.set(true));
        drop(g1); // stalls 400ms inside try_cleanup
    });
    std::thread::sleep(Duration::from_millis(100));
    { let _g2 = mgr.page_write(1, 1); }          // revive E1, then remove it
    let g3 = mgr.page_write(1, 1);               // fresh entry E2, held
    t1.join().unwrap();                           // stale cleanup runs now
    let acquired = Arc::new(AtomicBool::new(false));
    let (m4, a4) = (Arc::clone(&mgr), Arc::clone(&acquired));
    let t4 = std::thread::spawn(move || { let _g4 = m4.page_write(1, 1); a4.store(true, Ordering::SeqCst); });
    std::thread::sleep(Duration::from_millis(300));
    let second_writer_got_in = acquired.load(Ordering::SeqCst);
    drop(g3);
    t4.join().unwrap();
    assert!(!second_writer_got_in, "two threads held the write lock of page (1,1) at the same time");
}
