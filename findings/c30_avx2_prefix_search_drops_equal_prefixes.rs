use turdb::btree::{find_key_simd, SearchResult};
use turdb::{Database, OwnedValue};

const PAGE_SIZE: usize = 16384;
/// builds a leaf page image the way the tests inside simd_scan.rs do: slot = prefix(4, BE) | cell offset (2, LE) | key len (2, LE)
fn page_with_keys(keys: &[Vec<u8>]) -> Vec<u8> {
    let mut page = vec![0u8; PAGE_SIZE];
    let slot_size = 8usize;
    let content_start = turdb::btree::LEAF_CONTENT_START;
    let mut cell = PAGE_SIZE;
    for (i, k) in keys.iter().enumerate() {
        cell -= k.len();
        page[cell..cell + k.len()].copy_from_slice(k);
        let mut prefix = [0u8; 4];
        let n = k.len().min(4);
        prefix[..n].copy_from_slice(&k[..n]);
        let so = content_start + i * slot_size;
        page[so..so + 4].copy_from_slice(&prefix);
        page[so + 4..so + 6].copy_from_slice(&(cell as u16).to_le_bytes());
        page[so + 6..so + 8].copy_from_slice(&(k.len() as u16).to_le_bytes());
    }
    page
}
fn plain(keys: &[Vec<u8>], key: &[u8]) -> SearchResult {
    match keys.binary_search_by(|k| k.as_slice().cmp(key)) { Ok(i) => SearchResult::Found(i), Err(i) => SearchResult::NotFound(i) }
}
#[test]
fn simd_leaf_search_equals_binary_search_with_shared_prefixes() {
    // 8-byte big-endian row ids: every key shares the 4-byte prefix 00 00 00 00
    for n in [3usize, 8, 9, 12, 16, 31, 64, 200] {
        let keys: Vec<Vec<u8>> = (1..=n as u64).map(|i| (i * 2).to_be_bytes().to_vec()).collect();
        let page = page_with_keys(&keys);
        for probe in 0..=(2 * n as u64 + 1) {
            let k = probe.to_be_bytes();
            let got = find_key_simd(&page, &k, n);
            let want = plain(&keys, &k);
            assert_eq!(format!("{:?}", got), format!("{:?}", want), "n={} probe={}", n, probe);
        }
    }
    // mixed: runs of equal prefixes between distinct ones
    let mut keys: Vec<Vec<u8>> = Vec::new();
    for p in 0u32..20 { for s in 0u32..(1 + p % 5) { let mut k = p.to_be_bytes().to_vec(); k.extend_from_slice(&s.to_be_bytes()); keys.push(k); } }
    let page = page_with_keys(&keys);
    for k in &keys { assert_eq!(format!("{:?}", find_key_simd(&page, k, keys.len())), format!("{:?}", plain(&keys, k))); }
    for p in 0u32..21 { let mut k = p.to_be_bytes().to_vec(); k.extend_from_slice(&9u32.to_be_bytes()); assert_eq!(format!("{:?}", find_key_simd(&page, &k, keys.len())), format!("{:?}", plain(&keys, &k)), "absent key {:?}", k); }
}
#[test]
fn growing_updates_do_not_duplicate_rows() {
    let dir = tempfile::tempdir().unwrap();
    let db = Database::create(dir.path().join("db")).unwrap();
    db.execute("CREATE TABLE t (id INT PRIMARY KEY, v TEXT)").unwrap();
    for i in 1..=12 { db.execute(&format!("INSERT INTO t VALUES ({}, 'x')", i)).unwrap(); }
    let big = "y".repeat(3000);
    for i in 1..=12 { db.execute(&format!("UPDATE t SET v = '{}' WHERE id = {}", big, i)).unwrap(); }
    let mut ids: Vec<i64> = db.query("SELECT id FROM t").unwrap().into_iter().map(|r| match r.values[0] { OwnedValue::Int(i) => i, _ => panic!() }).collect();
    ids.sort();
    assert_eq!(ids, (1..=12).collect::<Vec<i64>>(), "UPDATEs that grow a row duplicated rows (leaf delete could not find the key)");
}
