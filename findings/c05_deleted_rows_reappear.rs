use tempfile::tempdir;
use turdb::Database;

fn rep(name: &str, ok: bool, d: String) -> bool { eprintln!("{:26} {} {}", name, if ok {"ok  "} else {"FAIL"}, d); ok }
fn count(db: &Database, sql: &str) -> String { db.query(sql).map(|r| format!("{:?}", r.iter().map(|x| format!("{:?}", x.values)).collect::<Vec<_>>())).unwrap_or_else(|e| format!("ERR {}", e)) }
fn affected(r: eyre::Result<turdb::ExecuteResult>) -> String { format!("{:?}", r.map_err(|e| e.to_string())) }

#[test]
fn deleted_rows_stay_deleted() {
    let mut all = true;
    { let d = tempdir().unwrap(); let db = Database::create(&d.path().join("db")).unwrap();
      db.execute("CREATE TABLE t (id BIGINT PRIMARY KEY, v BIGINT)").unwrap();
      for i in 1..=3 { db.execute(&format!("INSERT INTO t VALUES ({}, {})", i, i * 10)).unwrap(); }
      db.execute("DELETE FROM t WHERE id = 2").unwrap();
      let again = affected(db.execute("DELETE FROM t WHERE id = 2"));
      all &= rep("delete:re-delete", again.contains("rows_affected: 0"), again);
      let c = count(&db, "SELECT COUNT(*) FROM t");
      all &= rep("delete:count_after", c.contains("Int(2)"), c); }
    { let d = tempdir().unwrap(); let db = Database::create(&d.path().join("db")).unwrap();
      db.execute("CREATE TABLE t (id BIGINT PRIMARY KEY, v BIGINT)").unwrap();
      for i in 1..=3 { db.execute(&format!("INSERT INTO t VALUES ({}, {})", i, i * 10)).unwrap(); }
      db.execute("DELETE FROM t WHERE id = 2").unwrap();
      let up = affected(db.execute("UPDATE t SET v = 99 WHERE v = 20"));
      all &= rep("update:deleted_row", up.contains("rows_affected: 0"), up);
      let rows = count(&db, "SELECT id FROM t");
      all &= rep("update:resurrect", !rows.contains("Int(2)"), rows); }
    { let d = tempdir().unwrap(); let db = Database::create(&d.path().join("db")).unwrap();
      db.execute("CREATE TABLE p (id BIGINT PRIMARY KEY)").unwrap();
      db.execute("CREATE TABLE c (id BIGINT PRIMARY KEY, pid BIGINT REFERENCES p(id))").unwrap();
      db.execute("INSERT INTO p VALUES (1)").unwrap();
      db.execute("DELETE FROM p WHERE id = 1").unwrap();
      let r = affected(db.execute("INSERT INTO c VALUES (10, 1)"));
      all &= rep("fk:deleted_parent", r.contains("Err"), r); }
    { let d = tempdir().unwrap(); let db = Database::create(&d.path().join("db")).unwrap();
      db.execute("CREATE TABLE t (id BIGINT PRIMARY KEY, name TEXT)").unwrap();
      db.execute("INSERT INTO t VALUES (1, 'a')").unwrap();
      db.execute("INSERT INTO t VALUES (2, 'b')").unwrap();
      db.execute("DELETE FROM t WHERE id = 2").unwrap();
      let ci = affected(db.execute("CREATE UNIQUE INDEX ix ON t (name)"));
      let ins = affected(db.execute("INSERT INTO t VALUES (3, 'b')"));
      all &= rep("create_index:backfill", ins.contains("Ok"), format!("create={} insert_b={}", &ci[..ci.len().min(40)], &ins[..ins.len().min(90)])); }
    assert!(all, "deleted rows reappear / are counted (see FAIL lines)");
}
