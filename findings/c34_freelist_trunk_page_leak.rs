use tempfile::tempdir;
use turdb::storage::{Freelist, MmapStorage};

#[test]
fn released_page_is_allocatable_and_count_is_exact() {
    let dir = tempdir().unwrap();
    let mut st = MmapStorage::create(&dir.path().join("f.db"), 16).unwrap();
    let mut fl = Freelist::new();
    fl.release(&mut st, 5).unwrap();
    assert_eq!(fl.free_count(), 1);
    let got = fl.allocate(&mut st).unwrap();
    assert_eq!(got, Some(5), "free_count()==1 promised one allocatable page");
    assert_eq!(fl.free_count(), 0);
    assert_eq!(fl.allocate(&mut st).unwrap(), None);
}

#[test]
fn every_released_page_comes_back_exactly_once() {
    let dir = tempdir().unwrap();
    let mut st = MmapStorage::create(&dir.path().join("f.db"), 64).unwrap();
    let mut fl = Freelist::new();
    let rel: Vec<u32> = (10..20).collect();
    for &p in &rel { fl.release(&mut st, p).unwrap(); }
    assert_eq!(fl.free_count() as usize, rel.len());
    let mut got = vec![];
    while let Some(p) = fl.allocate(&mut st).unwrap() { got.push(p); assert!(got.len() <= rel.len()); }
    got.sort();
    assert_eq!(got, rel, "the pages allocate() can return must be exactly the released ones");
    assert_eq!(fl.free_count(), 0);
}
