use tempfile::tempdir;
use turdb::Database;

#[test]
fn recreated_table_survives_reopen() {
    let dir = tempdir().unwrap();
    let p = dir.path().join("db");
    {
        let db = Database::create(&p).unwrap();
        db.execute("CREATE TABLE t (id BIGINT PRIMARY KEY, v TEXT)").unwrap();
        db.execute("INSERT INTO t VALUES (1, 'old')").unwrap();
        db.execute("DROP TABLE t").unwrap();
        db.execute("CREATE TABLE t (id BIGINT PRIMARY KEY, v TEXT)").unwrap();
        db.execute("INSERT INTO t VALUES (2, 'new')").unwrap();
        let rows = db.query("SELECT id FROM t").unwrap();
        assert_eq!(rows.len(), 1, "in-session: only the new row");
        db.close().unwrap();
    }
    let db = Database::open(&p).unwrap();
    let rows = db.query("SELECT id FROM t").unwrap();
    assert_eq!(rows.len(), 1, "after reopen the re-created table must still hold its row");
}
