use turdb::sql::row_serde::RowSerde;
use turdb::types::Value;

#[test]
fn float_zero_keeps_its_type_through_spill_format() {
    for z in [0.0f64, -0.0f64] {
        let row = vec![Value::Int(7), Value::Float(z), Value::Int(0)];
        let mut buf = Vec::new();
        RowSerde::serialize_row_into(&row, &mut buf);
        assert_eq!(RowSerde::row_size(&row), buf.len(), "computed size equals bytes written");
        let mut back = smallvec::SmallVec::<[Value<'static>; 16]>::new();
        let mut used = 0usize;
        RowSerde::deserialize_row_into(&buf, &mut used, &mut back).unwrap();
        assert_eq!(used, buf.len());
        match &back[1] {
            Value::Float(f) => assert_eq!(f.to_bits(), z.to_bits(), "float zero must keep value and sign"),
            other => panic!("Float({:?}) came back as {:?} (type not preserved)", z, other),
        }
        assert!(matches!(back[2], Value::Int(0)));
    }
}
