use turdb::{Database, OwnedValue};
fn ids(db: &Database, sql: &str) -> Vec<i64> { let mut v: Vec<i64> = db.query(sql).unwrap().into_iter().map(|r| match r.values[0] { OwnedValue::Int(i) => i, _ => panic!() }).collect(); v.sort(); v }
/// UPDATE of an indexed column addressed by primary key took the one-pass path, which never touches secondary indexes.
#[test]
fn pk_addressed_update_maintains_secondary_index() {
    let dir = tempfile::tempdir().unwrap();
    let db = Database::create(dir.path().join("db")).unwrap();
    db.execute("CREATE TABLE t (id INT PRIMARY KEY, k INT)").unwrap();
    db.execute("CREATE INDEX t_k ON t (k)").unwrap();
    db.execute("INSERT INTO t VALUES (100, 10)").unwrap();
    db.execute("INSERT INTO t VALUES (200, 20)").unwrap();
    db.execute("INSERT INTO t VALUES (1, 5)").unwrap();
    db.execute("UPDATE t SET k = 31 WHERE id = 1").unwrap();
    assert_eq!(ids(&db, "SELECT id FROM t WHERE k = 31"), vec![1], "row not found under its new key");
    assert!(ids(&db, "SELECT id FROM t WHERE k = 5").is_empty(), "row still found under its old key");
}
/// index entries re-inserted by UPDATE carried the primary-key value where INSERT stores the row key:
/// with id != row id (or no primary key at all) the row was no longer reachable through the index.
#[test]
fn update_reinserts_index_entry_with_row_key() {
    let dir = tempfile::tempdir().unwrap();
    let db = Database::create(dir.path().join("db")).unwrap();
    db.execute("CREATE TABLE t (id INT PRIMARY KEY, k INT, u INT UNIQUE)").unwrap();
    db.execute("INSERT INTO t VALUES (100, 10, 1000)").unwrap();
    db.execute("INSERT INTO t VALUES (200, 20, 2000)").unwrap();
    db.execute("UPDATE t SET k = 30, u = 3000 WHERE id = 100").unwrap();
    assert_eq!(ids(&db, "SELECT id FROM t WHERE u = 3000"), vec![100], "row not reachable through the UNIQUE column index after UPDATE");
    db.execute("CREATE TABLE n (a INT, k INT)").unwrap();
    db.execute("CREATE INDEX n_k ON n (k)").unwrap();
    db.execute("INSERT INTO n VALUES (1, 10)").unwrap();
    db.execute("UPDATE n SET k = 11 WHERE a = 1").unwrap();
    assert_eq!(ids(&db, "SELECT a FROM n WHERE k = 11"), vec![1], "table without primary key: index entry dropped by UPDATE");
}
