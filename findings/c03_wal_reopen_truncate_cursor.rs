use tempfile::tempdir;
use turdb::storage::{MmapStorage, Wal, PAGE_SIZE};

fn page(b: u8) -> Vec<u8> { vec![b; PAGE_SIZE] }

#[test]
fn reopen_then_append_keeps_earlier_frames() {
    let dir = tempdir().unwrap();
    let wal_dir = dir.path().join("wal");
    {
        let wal = Wal::create(&wal_dir).unwrap();
        wal.write_frame(1, 4, &page(0xA1)).unwrap();
        wal.write_frame(2, 4, &page(0xA2)).unwrap();
    }
    {
        let wal = Wal::open(&wal_dir).unwrap(); // reopen, then append one more frame
        wal.write_frame(3, 4, &page(0xA3)).unwrap();
    }
    let mut st = MmapStorage::create(&dir.path().join("t.db"), 4).unwrap();
    let wal = Wal::open(&wal_dir).unwrap();
    let n = wal.recover(&mut st).unwrap();
    assert_eq!(n, 3, "all three valid frames must be replayed");
    assert_eq!(st.page(1).unwrap()[0], 0xA1, "frame written before the reopen must not be overwritten");
    assert_eq!(st.page(2).unwrap()[0], 0xA2);
    assert_eq!(st.page(3).unwrap()[0], 0xA3);
}

#[test]
fn append_after_truncate_leaves_no_unwritten_bytes() {
    let dir = tempdir().unwrap();
    let wal_dir = dir.path().join("wal");
    let wal = Wal::create(&wal_dir).unwrap();
    wal.write_frame(1, 4, &page(0xB1)).unwrap();
    wal.write_frame(2, 4, &page(0xB2)).unwrap();
    wal.truncate().unwrap();
    wal.write_frame(3, 4, &page(0xB3)).unwrap();
    drop(wal);
    let len = std::fs::metadata(wal_dir.join("wal.000001")).unwrap().len();
    assert_eq!(len as usize, 32 + PAGE_SIZE, "log must contain exactly the one frame written after truncate");
    let mut st = MmapStorage::create(&dir.path().join("t.db"), 4).unwrap();
    st.page_mut(0).unwrap()[0] = 0x77;
    let wal = Wal::open(&wal_dir).unwrap();
    let n = wal.recover(&mut st).unwrap();
    assert_eq!(n, 1, "never-written (zero) bytes must not be replayed as frames");
    assert_eq!(st.page(0).unwrap()[0], 0x77, "page 0 must not be overwritten by a never-written zero frame");
    assert_eq!(st.page(3).unwrap()[0], 0xB3);
}

#[test]
fn invalid_frame_in_earlier_segment_ends_replay() {
    use std::io::{Seek, SeekFrom, Write};
    let dir = tempdir().unwrap();
    let wal_dir = dir.path().join("wal");
    {
        let wal = Wal::create(&wal_dir).unwrap();
        wal.write_frame(1, 8, &page(0xC1)).unwrap();
        wal.write_frame(2, 8, &page(0xC2)).unwrap(); // will be corrupted
        wal.write_frame(3, 8, &page(0xC3)).unwrap();
        wal.rotate_segment().unwrap();
        wal.write_frame(4, 8, &page(0xC4)).unwrap(); // written after the corrupted frame, in segment 2
    }
    // flip one byte inside the page data of the 2nd frame of segment 1
    let seg1 = wal_dir.join("wal.000001");
    let mut f = std::fs::OpenOptions::new().read(true).write(true).open(&seg1).unwrap();
    f.seek(SeekFrom::Start((32 + PAGE_SIZE + 32 + 100) as u64)).unwrap();
    f.write_all(&[0x00]).unwrap();
    drop(f);
    let mut st = MmapStorage::create(&dir.path().join("t.db"), 8).unwrap();
    let wal = Wal::open(&wal_dir).unwrap();
    let n = wal.recover(&mut st).unwrap();
    assert_eq!(st.page(1).unwrap()[0], 0xC1);
    assert_eq!(st.page(4).unwrap()[0], 0x00, "a frame logged after the first invalid frame must not be applied");
    assert_eq!(n, 1, "exactly the longest valid prefix (1 frame) must be applied");
}
