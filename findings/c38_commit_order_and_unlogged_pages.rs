use std::sync::{Arc, Barrier};
use turdb::{Database, OwnedValue};
fn copy_dir(src: &std::path::Path, dst: &std::path::Path) {
    std::fs::create_dir_all(dst).unwrap();
    for e in std::fs::read_dir(src).unwrap() {
        let e = e.unwrap();
        let p = e.path();
        let d = dst.join(e.file_name());
        if p.is_dir() { copy_dir(&p, &d); } else { std::fs::copy(&p, &d).unwrap(); }
    }
}
fn rows(db: &Database, sql: &str) -> Vec<Vec<OwnedValue>> { db.query(sql).unwrap().into_iter().map(|r| r.values).collect() }
#[test]
fn concurrent_commits_then_replay() {
    let threads = 8usize;
    let mut bad = 0;
    for round in 0..6 {
        let dir = tempfile::tempdir().unwrap();
        let p = dir.path().join("db");
        let db = Database::create(&p).unwrap();
        db.execute("PRAGMA WAL=ON").unwrap();
        db.execute("CREATE TABLE t (id INT PRIMARY KEY, v INT)").unwrap();
        for i in 0..threads { db.execute(&format!("INSERT INTO t VALUES ({}, 0)", i)).unwrap(); }
        let bar = Arc::new(Barrier::new(threads));
        let hs: Vec<_> = (0..threads).map(|i| { let h = db.clone(); let bar = bar.clone(); std::thread::spawn(move || {
            bar.wait();
            for n in 1..=50 {
                h.execute("BEGIN").unwrap();
                h.execute(&format!("UPDATE t SET v = {} WHERE id = {}", n, i)).unwrap();
                h.execute("COMMIT").unwrap();
            }
        })}).collect();
        for h in hs { h.join().unwrap(); }
        let live = rows(&db, "SELECT id, v FROM t ORDER BY id");
        let p2 = dir.path().join("crash");
        copy_dir(&p, &p2);
        for e in std::fs::read_dir(p2.join("wal")).unwrap() { let e = e.unwrap(); eprintln!("wal file {:?} {}", e.file_name(), e.metadata().unwrap().len()); }
        let db2 = Database::open(&p2).unwrap();
        let rec = rows(&db2, "SELECT id, v FROM t ORDER BY id");
        if live != rec { bad += 1; eprintln!("round {}: live {:?}\n      recovered {:?}", round, live, rec); }
    }
    assert_eq!(bad, 0, "replaying the log gave an older page image in {} rounds", bad);
}

#[test]
fn capture_then_late_append() {
    let dir = tempfile::tempdir().unwrap();
    let p = dir.path().join("db");
    let db = Database::create(&p).unwrap();
    db.execute("PRAGMA WAL=ON").unwrap();
    db.execute("CREATE TABLE t (id INT PRIMARY KEY, v INT)").unwrap();
    db.execute("INSERT INTO t VALUES (0, 0)").unwrap();
    db.execute("INSERT INTO t VALUES (1, 0)").unwrap();
    let h = db.clone();
    let slow = std::thread::Builder::new().name("triage-slow".into()).spawn(move || {
        h.execute("BEGIN").unwrap();
        h.execute("UPDATE t SET v = 7 WHERE id = 0").unwrap();
        h.execute("COMMIT").unwrap();   // captures the page, then is descheduled before it appends
    }).unwrap();
    std::thread::sleep(std::time::Duration::from_millis(100));
    db.execute("BEGIN").unwrap();
    db.execute("UPDATE t SET v = 9 WHERE id = 1").unwrap();
    db.execute("COMMIT").unwrap();       // captures a newer image of the same page and appends first
    slow.join().unwrap();
    let live = rows(&db, "SELECT id, v FROM t ORDER BY id");
    let p2 = dir.path().join("crash");
    copy_dir(&p, &p2);
    let db2 = Database::open(&p2).unwrap();
    let rec = rows(&db2, "SELECT id, v FROM t ORDER BY id");
    assert_eq!(live, rec, "replay restored an older image of the page than the last committed one");
}

fn find_files(dir: &std::path::Path, ext: &str, out: &mut Vec<std::path::PathBuf>) {
    for e in std::fs::read_dir(dir).unwrap() { let p = e.unwrap().path(); if p.is_dir() { find_files(&p, ext, out); } else if p.extension().map(|x| x == ext).unwrap_or(false) { out.push(p); } }
}
/// crash image = data files as they were when last made durable + the fsynced WAL.
/// Table files are msynced at commit (synchronous=FULL); index files are neither logged nor synced.
#[test]
fn index_pages_not_covered_by_log() {
    let dir = tempfile::tempdir().unwrap();
    let p = dir.path().join("db");
    let db = Database::create(&p).unwrap();
    db.execute("PRAGMA WAL=ON").unwrap();
    db.execute("CREATE TABLE t (id INT PRIMARY KEY, k INT, v TEXT)").unwrap();
    db.execute("CREATE INDEX t_k ON t (k)").unwrap();
    db.execute("INSERT INTO t VALUES (1, 10, 'a')").unwrap();
    db.execute("PRAGMA WAL_CHECKPOINT").unwrap();
    // durable state so far
    let before = dir.path().join("before");
    copy_dir(&p, &before);
    db.execute("BEGIN").unwrap();
    db.execute("INSERT INTO t VALUES (2, 20, 'b')").unwrap();
    db.execute("COMMIT").unwrap();
    let after = dir.path().join("after");
    copy_dir(&p, &after);
    // crash image: everything as after the commit, except index files whose dirty mmap pages were never written back
    let mut idx = Vec::new();
    find_files(&before, "idx", &mut idx);
    assert!(!idx.is_empty(), "no index files found");
    for f in &idx {
        let rel = f.strip_prefix(&before).unwrap();
        std::fs::copy(f, after.join(rel)).unwrap();
    }
    let db2 = Database::open(&after).unwrap();
    let scan = rows(&db2, "SELECT id FROM t ORDER BY id");
    let by_index = rows(&db2, "SELECT id FROM t WHERE k = 20");
    assert_eq!(scan, vec![vec![OwnedValue::Int(1)], vec![OwnedValue::Int(2)]]);
    assert_eq!(by_index, vec![vec![OwnedValue::Int(2)]], "committed row is in the table but not in its index after recovery");
}

fn crash_after(setup: &[&str], txn: &[&str]) -> (tempfile::TempDir, Database) {
    let dir = tempfile::tempdir().unwrap();
    let p = dir.path().join("db");
    let db = Database::create(&p).unwrap();
    db.execute("PRAGMA WAL=ON").unwrap();
    db.execute("CREATE TABLE t (id INT PRIMARY KEY, k INT, v TEXT)").unwrap();
    db.execute("CREATE INDEX t_k ON t (k)").unwrap();
    for s in setup { db.execute(s).unwrap(); }
    db.execute("PRAGMA WAL_CHECKPOINT").unwrap();
    let before = dir.path().join("before");
    copy_dir(&p, &before);
    db.execute("BEGIN").unwrap();
    for s in txn { db.execute(s).unwrap(); }
    db.execute("COMMIT").unwrap();
    let after = dir.path().join("after");
    copy_dir(&p, &after);
    let mut idx = Vec::new();
    find_files(&before, "idx", &mut idx);
    for f in &idx { let rel = f.strip_prefix(&before).unwrap(); std::fs::copy(f, after.join(rel)).unwrap(); }
    let db2 = Database::open(&after).unwrap();
    (dir, db2)
}
#[test]
fn index_not_logged_update() {
    let (_d, db2) = crash_after(&["INSERT INTO t VALUES (1, 10, 'a')"], &["UPDATE t SET k = 30 WHERE id = 1"]);
    assert_eq!(rows(&db2, "SELECT id, k FROM t ORDER BY id"), vec![vec![OwnedValue::Int(1), OwnedValue::Int(30)]]);
    assert_eq!(rows(&db2, "SELECT id FROM t WHERE k = 30"), vec![vec![OwnedValue::Int(1)]], "updated key not found through the index");
}
#[test]
fn index_not_logged_delete() {
    let (_d, db2) = crash_after(&["INSERT INTO t VALUES (1, 10, 'a')", "INSERT INTO t VALUES (2, 20, 'b')"], &["DELETE FROM t WHERE id = 1"]);
    assert_eq!(rows(&db2, "SELECT id FROM t ORDER BY id"), vec![vec![OwnedValue::Int(2)]]);
    let r = db2.query("SELECT id FROM t WHERE k = 10");
    assert!(matches!(&r, Ok(v) if v.is_empty()), "deleted row still reachable through the index: {:?}", r.map(|v| v.into_iter().map(|x| x.values).collect::<Vec<_>>()).map_err(|e| e.to_string()));
}
#[test]
fn index_not_logged_update_from() {
    let (_d, db2) = crash_after(&["INSERT INTO t VALUES (1, 10, 'a')", "CREATE TABLE s (sid INT, sk INT)", "INSERT INTO s VALUES (1, 40)"], &["UPDATE t SET k = s.sk FROM s WHERE t.id = s.sid"]);
    assert_eq!(rows(&db2, "SELECT id, k FROM t ORDER BY id"), vec![vec![OwnedValue::Int(1), OwnedValue::Int(40)]]);
    assert_eq!(rows(&db2, "SELECT id FROM t WHERE k = 40"), vec![vec![OwnedValue::Int(1)]], "updated key not found through the index");
}

/// crash image: data files as of the last checkpoint (no mmap write-back since) + the WAL as fsynced by the commits
fn crash_wal_only(ddl: &[&str], setup: &[&str], acked: &[&str]) -> (tempfile::TempDir, Database, Database) {
    let dir = tempfile::tempdir().unwrap();
    let p = dir.path().join("db");
    let db = Database::create(&p).unwrap();
    db.execute("PRAGMA WAL=ON").unwrap();
    for s in ddl { db.execute(s).unwrap(); }
    for s in setup { db.execute(s).unwrap(); }
    db.execute("PRAGMA WAL_CHECKPOINT").unwrap();
    let before = dir.path().join("before");
    copy_dir(&p, &before);
    for s in acked { db.execute(s).unwrap(); }
    let img = dir.path().join("img");
    copy_dir(&before, &img);
    let _ = std::fs::remove_dir_all(img.join("wal"));
    copy_dir(&p.join("wal"), &img.join("wal"));
    let db2 = Database::open(&img).unwrap();
    (dir, db, db2)
}
#[test]
fn unlogged_on_conflict_update() {
    let (_d, live, rec) = crash_wal_only(&["CREATE TABLE t (id INT PRIMARY KEY, v INT)"], &["INSERT INTO t VALUES (1, 10)"],
        &["INSERT INTO t VALUES (1, 99) ON CONFLICT (id) DO UPDATE SET v = 99"]);
    let q = "SELECT id, v FROM t ORDER BY id";
    assert_eq!(rows(&live, q), vec![vec![OwnedValue::Int(1), OwnedValue::Int(99)]]);
    assert_eq!(rows(&rec, q), rows(&live, q), "acknowledged ON CONFLICT DO UPDATE is not in the log");
}
#[test]
fn unlogged_cascade_update() {
    let (_d, live, rec) = crash_wal_only(&["CREATE TABLE p (id INTEGER PRIMARY KEY, n INTEGER)", "CREATE TABLE c (id INTEGER PRIMARY KEY, pid INTEGER REFERENCES p(id) ON DELETE CASCADE ON UPDATE CASCADE)"],
        &["INSERT INTO p VALUES (1, 0)", "INSERT INTO c VALUES (10, 1)"], &["UPDATE p SET id = 2 WHERE id = 1"]);
    let q = "SELECT id, pid FROM c ORDER BY id";
    assert_eq!(rows(&live, q), vec![vec![OwnedValue::Int(10), OwnedValue::Int(2)]]);
    assert_eq!(rows(&rec, q), rows(&live, q), "cascaded child update is not in the log (parent recovered, child not)");
}
#[test]
fn unlogged_cascade_delete() {
    let (_d, live, rec) = crash_wal_only(&["CREATE TABLE p (id INTEGER PRIMARY KEY, n INTEGER)", "CREATE TABLE c (id INTEGER PRIMARY KEY, pid INTEGER REFERENCES p(id) ON DELETE CASCADE ON UPDATE CASCADE)"],
        &["INSERT INTO p VALUES (1, 0)", "INSERT INTO c VALUES (10, 1)"], &["DELETE FROM p WHERE id = 1"]);
    let q = "SELECT id, pid FROM c ORDER BY id";
    assert!(rows(&live, q).is_empty());
    assert_eq!(rows(&rec, "SELECT id FROM p"), rows(&live, "SELECT id FROM p"));
    assert_eq!(rows(&rec, q), rows(&live, q), "cascaded child delete is not in the log (parent row gone, child row back)");
}

fn crash_old_idx(ddl: &[&str], setup: &[&str], txn: &[&str]) -> (tempfile::TempDir, Database) {
    let dir = tempfile::tempdir().unwrap();
    let p = dir.path().join("db");
    let db = Database::create(&p).unwrap();
    db.execute("PRAGMA WAL=ON").unwrap();
    for s in ddl { db.execute(s).unwrap(); }
    for s in setup { db.execute(s).unwrap(); }
    db.execute("PRAGMA WAL_CHECKPOINT").unwrap();
    let before = dir.path().join("before");
    copy_dir(&p, &before);
    for s in txn { db.execute(s).unwrap(); }
    let after = dir.path().join("after");
    copy_dir(&p, &after);
    let mut idx = Vec::new();
    find_files(&before, "idx", &mut idx);
    for f in &idx { let rel = f.strip_prefix(&before).unwrap(); std::fs::copy(f, after.join(rel)).unwrap(); }
    (dir, Database::open(&after).unwrap())
}
#[test]
fn unique_column_index_not_logged() {
    let (_d, rec) = crash_old_idx(&["CREATE TABLE t (id INT PRIMARY KEY, u INT UNIQUE, a INT, b INT)", "CREATE UNIQUE INDEX t_ab ON t (a, b)"],
        &["INSERT INTO t VALUES (1, 10, 1, 1)"], &["INSERT INTO t VALUES (2, 20, 2, 2)"]);
    assert_eq!(rows(&rec, "SELECT id FROM t ORDER BY id").len(), 2);
    let dup_pk = rec.execute("INSERT INTO t VALUES (2, 21, 3, 3)");
    let dup_u = rec.execute("INSERT INTO t VALUES (3, 20, 4, 4)");
    let dup_ab = rec.execute("INSERT INTO t VALUES (4, 40, 2, 2)");
    eprintln!("dup pk: {:?}\ndup unique col: {:?}\ndup unique index: {:?}", dup_pk.as_ref().map(|_| ()).map_err(|e| e.to_string()), dup_u.as_ref().map(|_| ()).map_err(|e| e.to_string()), dup_ab.as_ref().map(|_| ()).map_err(|e| e.to_string()));
    eprintln!("rows: {:?}", rows(&rec, "SELECT id, u, a, b FROM t ORDER BY id"));
    assert!(dup_pk.is_err() && dup_u.is_err() && dup_ab.is_err(), "duplicate accepted after recovery: index entries of the committed row were never logged");
}
