use turdb::{Database, OwnedValue};
fn exec(db: &Database, sql: &str) { db.execute(sql).unwrap_or_else(|e| panic!("{}: {}", sql, e)); }
fn rows(db: &Database, sql: &str) -> Vec<Vec<OwnedValue>> { db.query(sql).unwrap().into_iter().map(|r| r.values).collect() }
fn setup() -> (tempfile::TempDir, Database, Database) {
    let dir = tempfile::tempdir().unwrap();
    let a = Database::create(dir.path()).unwrap();
    let b = a.clone();
    exec(&a, "CREATE TABLE t (id INT PRIMARY KEY, v INT)");
    exec(&a, "INSERT INTO t VALUES (1, 100)");
    (dir, a, b)
}
#[test]
fn dirty_read_insert() {
    let (_d, a, b) = setup();
    exec(&a, "BEGIN");
    exec(&a, "INSERT INTO t VALUES (2, 200)");
    let seen = rows(&b, "SELECT id FROM t ORDER BY id");
    exec(&a, "ROLLBACK");
    assert_eq!(seen, vec![vec![OwnedValue::Int(1)]], "handle B saw A's uncommitted insert");
}
#[test]
fn dirty_read_update() {
    let (_d, a, b) = setup();
    exec(&a, "BEGIN");
    exec(&a, "UPDATE t SET v = 999 WHERE id = 1");
    let seen = rows(&b, "SELECT v FROM t WHERE id = 1");
    exec(&a, "ROLLBACK");
    assert_eq!(seen, vec![vec![OwnedValue::Int(100)]], "handle B saw A's uncommitted update");
}
#[test]
fn snapshot_read() {
    let (_d, a, b) = setup();
    exec(&a, "BEGIN");
    let before = rows(&a, "SELECT v FROM t WHERE id = 1");
    exec(&b, "UPDATE t SET v = 555 WHERE id = 1");
    let after = rows(&a, "SELECT v FROM t WHERE id = 1");
    exec(&a, "COMMIT");
    assert_eq!(before, after, "A's snapshot changed inside its transaction");
}
#[test]
fn lost_update() {
    let (_d, a, b) = setup();
    exec(&a, "BEGIN");
    exec(&b, "BEGIN");
    exec(&a, "UPDATE t SET v = v + 1 WHERE id = 1");
    let rb = b.execute("UPDATE t SET v = v + 10 WHERE id = 1");
    let ca = a.execute("COMMIT");
    let cb = if rb.is_ok() { b.execute("COMMIT") } else { let _ = b.execute("ROLLBACK"); rb };
    assert!(!(ca.is_ok() && cb.is_ok()), "both transactions modifying row 1 committed: {:?}", rows(&a, "SELECT v FROM t"));
}
fn both_commit(a: &Database, b: &Database, wa: &dyn Fn(&Database) -> bool, wb: &dyn Fn(&Database) -> bool) -> bool {
    exec(a, "BEGIN");
    exec(b, "BEGIN");
    assert!(wa(a));
    let rb = wb(b);
    let ca = a.execute("COMMIT").is_ok();
    let cb = if rb { b.execute("COMMIT").is_ok() } else { let _ = b.execute("ROLLBACK"); false };
    ca && cb
}
#[test]
fn lost_update_delete() {
    let (_d, a, b) = setup();
    let r = both_commit(&a, &b, &|h| h.execute("UPDATE t SET v = v + 1 WHERE id = 1").is_ok(), &|h| h.execute("DELETE FROM t WHERE id = 1").is_ok());
    assert!(!r, "UPDATE and DELETE of row 1 both committed: {:?}", rows(&a, "SELECT id, v FROM t"));
}
#[test]
fn lost_update_from() {
    let (_d, a, b) = setup();
    exec(&a, "CREATE TABLE s (sid INT, sv INT)");
    exec(&a, "INSERT INTO s VALUES (1, 7)");
    let r = both_commit(&a, &b, &|h| h.execute("UPDATE t SET v = v + 1 WHERE id = 1").is_ok(), &|h| h.execute("UPDATE t SET v = s.sv FROM s WHERE t.id = s.sid").is_ok());
    assert!(!r, "UPDATE and UPDATE FROM of row 1 both committed: {:?}", rows(&a, "SELECT id, v FROM t"));
}
#[test]
fn lost_update_cached() {
    let (_d, a, b) = setup();
    let st = b.prepare("UPDATE t SET v = ? WHERE id = ?").unwrap();
    b.execute_with_cached_plan(&st, &[OwnedValue::Int(5), OwnedValue::Int(1)]).unwrap();
    let r = both_commit(&a, &b, &|h| h.execute("UPDATE t SET v = v + 1 WHERE id = 1").is_ok(), &|h| { let r = h.execute_with_cached_plan(&st, &[OwnedValue::Int(50), OwnedValue::Int(1)]); eprintln!("cached: {:?}", r.as_ref().map(|_| ()).map_err(|e| e.to_string())); r.is_ok() });
    assert!(!r, "UPDATE and prepared UPDATE of row 1 both committed: {:?}", rows(&a, "SELECT id, v FROM t"));
}
