#!/usr/bin/env python3
"""claim.py Cxx "<technique>" "<text>" [level]  — register a claimed check and regenerate MANIFEST.json"""
import json, sys, subprocess
p = "/verif/tools/claims.json"
d = json.load(open(p))
pid, tech, text = sys.argv[1:4]
d[pid] = {"claim": True, "level": sys.argv[4] if len(sys.argv) > 4 else "other", "technique": tech, "text": text}
json.dump(d, open(p, "w"), indent=1)
subprocess.run(["python3-vt", "/verif/tools/gen_manifest.py"])
