#!/usr/bin/env python3
"""Generates /verif/MANIFEST.json from the table below and validates it against the schema."""
import json, os, sys
V = "/verif"
CLAIMS = json.load(open(os.path.join(V, "tools", "claims.json")))
props = [json.loads(l) for l in open(os.path.join(V, "properties.jsonl"))]
ids = [p["id"] for p in props]
checks = []
na = []
for pid in ids:
    c = CLAIMS.get(pid)
    if c and c.get("claim"):
        checks.append({
            "property_id": pid,
            "quick_cmd": "./check %s --tier quick" % pid,
            "thorough_cmd": "./check %s --tier thorough" % pid,
            "evidence_file": "/verif/evidence/%s.json" % pid,
            "replay_cmd_template": "cat {path}",
            "engine": "rules",
            "level_claimed": {"category": c.get("level", "other"), "text": c["text"], "design_ref": c.get("design_ref", "DESIGN.md §4 " + pid + " and §9")},
            "level_note": c.get("note", "Trusted: rustc nightly HIR/MIR of crate turdb (lib, default features), Instance::try_resolve callee resolution, the rule tables in rules/props, POSIX file semantics. Decides the named structural clauses only, not the behavioural property."),
            "technique": c["technique"],
        })
    else:
        na.append({"property_id": pid, "reason": (c or {}).get("reason", "not yet claimed: no static clause implemented for it in this round")})
man = {
    "version": 1,
    "setup_cmd": "cd /verif/driver && CARGO_NET_OFFLINE=true cargo build --release --offline",
    "hooks": {"guard": "kahflane_turdb_verif", "enable": "none needed: static analysis reads /repo's sources as they are (no cfg-guarded code added)",
              "baseline_off_cmd": "python3 /verif/tools/baseline.py /repo", "source_commits": json.load(open(os.path.join(V, "tools", "source_commits.json"))), "add_only": True},
    "engines": [
        {"name": "driver", "path": "driver/", "serves_properties": [c["property_id"] for c in checks],
         "kind_free_text": "rustc_private driver (RUSTC_WORKSPACE_WRAPPER under cargo +nightly check): dumps MIR CFGs, resolved callees, places with field names, constants, HIR discard idioms of crate turdb as JSON facts"},
        {"name": "rules", "path": "rules/", "serves_properties": [c["property_id"] for c in checks],
         "kind_free_text": "Python rule engine over the facts: MUST-PASS/ORDER with configuration assumptions, interprocedural must-reach fixpoints, ERR-DROP, WHO, SIB matrices, CODEC tables, interval discharge of MIR asserts"},
    ],
    "checks": checks,
    "not_applicable": na,
    "notes": "Technique family: static analysis only. Every check rebuilds the fact base from /repo's current working tree (content-hashed cache under /verif/.cache). exit 0 = clauses hold (KNOWN-FINDING lines for listed genuine defects), exit 1 + VIOLATION = an unlisted clause violation, exit 2 = check could not be evaluated (anchor missing / floor not met). No hook commits exist in /repo (hooks.source_commits is empty); the unguarded `fix:` commits in /repo (15, listed with what failed in known_findings.json under fixed and in DESIGN.md §8) repair genuine defects and are not hooks.",
}
json.dump(man, open(os.path.join(V, "MANIFEST.json"), "w"), indent=1)
try:
    import jsonschema
    jsonschema.validate(man, json.load(open("/root/.vp/MANIFEST.schema.json")))
    print("MANIFEST valid: %d checks, %d not_applicable" % (len(checks), len(na)))
except ImportError:
    print("jsonschema missing; not validated")
