#!/usr/bin/env python3
"""seed_regress.py [ids...] — re-run every kept seeded change against the checks.
For each /verif/seeded/<id>/patch.diff: find the newest /repo commit the patch applies to (HEAD first, then back through
history), check that commit out in the scratch worktree /tmp/wt/seedbase, apply the patch, run ./check <property> --repo there
(plus any extra properties listed in meta.json "also"), revert, and record the rules that fired in meta.json "detected_by".
Development aid only: nothing registered in MANIFEST.json uses it."""
import json, os, subprocess, sys, re
V = "/verif"; WT = "/tmp/wt/seedbase"
def sh(cmd, cwd=None):
    return subprocess.run(cmd, shell=True, cwd=cwd, capture_output=True, text=True)
if not os.path.isdir(WT):
    sh("git -C /repo worktree add --detach %s HEAD" % WT)
commits = sh("git -C /repo log --format=%h").stdout.split()
ids = sys.argv[1:] or sorted(os.listdir(V + "/seeded"))
for sid in ids:
    d = os.path.join(V, "seeded", sid)
    patch = os.path.join(d, "patch.diff")
    if not os.path.exists(patch):
        continue
    meta_p = os.path.join(d, "meta.json")
    meta = json.load(open(meta_p)) if os.path.exists(meta_p) else {}
    prop = sid[:3]
    base = None
    for c in ([meta["base_commit"]] if meta.get("base_commit") else commits):
        sh("git checkout -q --detach %s && git checkout -- ." % c, WT)
        if sh("git apply --check %s" % patch, WT).returncode == 0:
            base = c
            break
    if base is None:
        print(sid, "patch applies to no commit"); continue
    sh("git apply %s" % patch, WT)
    fired = {}
    for p in [prop] + meta.get("also", []):
        r = sh("./check %s --repo %s" % (p, WT), V)
        v = sorted(set(re.findall(r"VIOLATED (\S+?):", r.stdout)))
        err = "CHECK-ERROR" in r.stdout
        fired[p] = v if not err else ["CHECK-ERROR"]
    sh("git checkout -- .", WT)
    meta["property"] = prop
    meta["applies_to"] = base + (" (HEAD)" if base == commits[0] else " (a later fix: commit rewrote the lines the patch touches)")
    meta["detected_by"] = {p: v for p, v in fired.items()}
    meta["detected"] = any(v and v != ["CHECK-ERROR"] for v in fired.values())
    json.dump(meta, open(meta_p, "w"), indent=1)
    print(sid, "base", base, "->", {p: v for p, v in fired.items()})
sh("git checkout -q --detach %s && git checkout -- ." % commits[0], WT)
