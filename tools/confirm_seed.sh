#!/bin/bash
# usage: confirm_seed.sh Cxx [demo-test-name]
# Confirms a seeded change produced in scratch worktree /tmp/wt/Cxx (patch in /tmp/wt/Cxx.out/patch.diff):
#  1. demo fails with the change   2. demo passes without it   3. pinned suite still passes with it
# then stores patch + demo + meta.json under /verif/seeded/Cxx/ . Never touches /repo.
id=$1; lc=$(echo $id | tr A-Z a-z); suffix=${3:-}
W=/tmp/wt/$id; O=/tmp/wt/$id.out; D=/verif/seeded/$id$suffix
demo=${2:-seeded_$lc}
mkdir -p $D
cd $W || exit 2
git diff -- src > $D/patch.diff
[ -s $D/patch.diff ] || cp $O/patch.diff $D/patch.diff
cp $W/tests/$demo.rs $D/ 2>/dev/null || cp $O/$demo.rs $D/
cp $O/notes.md $D/notes.md 2>/dev/null
with=$(cargo test --offline --test $demo 2>&1 | grep -E "^test result" | tail -1)
git apply -R $D/patch.diff || { echo "cannot revert"; exit 2; }
without=$(cargo test --offline --test $demo 2>&1 | grep -E "^test result" | tail -1)
git apply $D/patch.diff
# baseline with the change but without the demo test file (it is not part of the pinned suite)
mv $W/tests/$demo.rs /tmp/wt/$demo.rs.keep
base=$(python3 /verif/tools/baseline.py $W 2>&1 | grep "^BASELINE" | tail -1)
mv /tmp/wt/$demo.rs.keep $W/tests/$demo.rs
python3 - "$id" "$with" "$without" "$base" "$D" "$demo" <<'PY'
import json,sys
id,w,wo,base,D,demo=sys.argv[1:]
ok = ("failed" in w and " 0 failed" not in w) and (" 0 failed" in wo) and ("stable_not_passing=0" in base)
json.dump({"property":id,"patch":"patch.diff","demonstration":demo+".rs",
 "confirmed_by_me":{"demo_with_change":w,"demo_without_change":wo,"pinned_suite_with_change":base,"all_confirmed":ok},
 "ran":["cargo test --offline --test "+demo+" (with change)","git apply -R patch.diff; cargo test --offline --test "+demo,"python3 tools/baseline.py <worktree> (with change)"],
 "needs_to_manifest":"see notes.md","detected_by":"(filled in after running ./check against the patch)"}, open(D+"/meta.json","w"), indent=1)
print(id, "CONFIRMED" if ok else "NOT-CONFIRMED", "|", w, "|", wo, "|", base)
PY
