import json,sys
pid=sys.argv[1]
tag=sys.argv[2] if len(sys.argv)>2 else pid
for l in open('/verif/properties.jsonl'):
    p=json.loads(l)
    if p['id']==pid: break
print(f"""You are helping evaluate a verification effort for TurDB, an embedded SQL database written in Rust (mmap B-tree row storage, WAL, MVCC transactions, Volcano-style executor, HNSW vector index). You have your own scratch git worktree of the repository at /tmp/wt/{tag} (a detached checkout of the pinned commit, with a pre-built ./target directory so builds are incremental). Work ONLY inside /tmp/wt/{tag} and write your deliverables to /tmp/wt/{tag}.out/ . Do not read or touch /repo, /verif or any other /tmp/wt/* directory. There is no network; always pass --offline to cargo.

The property under study (id {pid}): "{p['title']}"
Statement: {p['statement']}
Quantifier: {p['quantifier']['text']}
Source files most relevant: {', '.join(p['anchors']['files'])}

Your task: produce ONE realistic change (a bug a developer could plausibly introduce during a refactor, optimisation or feature change — not sabotage with an obvious marker, no comments announcing it) to the TurDB sources under /tmp/wt/{tag}/src that BREAKS this property, while
  (1) the crate still compiles (cargo build --offline, and cargo test --no-run --offline),
  (2) the existing pinned test suite still passes: run `python3 /tmp/wt/baseline.py /tmp/wt/{tag}` — it must print stable_not_passing=0 (note: ~33 tests fail on the unmodified tree already; only the 668 'stable' ones count). This takes ~3 minutes.
  (3) you provide a demonstration: a new integration test file (tests/seeded_{pid.lower()}.rs) or small example program that FAILS with your change and PASSES on the unmodified tree. Verify both directions yourself (save your change with `git diff -- src > /tmp/wt/{tag}.out/patch.diff`, use `git apply -R /tmp/wt/{tag}.out/patch.diff` to test on the unmodified sources, then `git apply` it again; do NOT use `git stash`, `git commit`, `git checkout <branch>` or `git worktree` — the git metadata is shared with other worktrees).

Prefer a change that needs something specific to manifest — a particular interleaving, a crash or I/O fault at a particular point, a multi-step sequence of operations, an unusual input, or two cooperating edits at different sites that each look fine alone — rather than something ordinary use would expose at once. If the property is about crashes/power loss and you cannot literally crash, a demonstration may simulate it (e.g. copy the database files at the point of the simulated crash, drop unsynced data, use std::mem::forget on the handle, truncate files, or inspect what was written/synced) — say clearly what you simulated. The change should be small (typically 1-30 lines) and in non-test code. Do not modify existing tests. Note the unmodified code base has bugs of its own; make sure your demonstration passes on the UNMODIFIED tree, so choose a scenario that works today.

Deliverables in /tmp/wt/{tag}.out/ :
  - patch.diff : output of `git diff` for src/ ONLY (the breaking change, without the demonstration file)
  - the demonstration file (copy of tests/seeded_{pid.lower()}.rs or the example program) 
  - notes.md : what the change is, why it breaks the property, what is needed for it to manifest, exact commands you ran and their observed results (with and without the change), and the baseline result line.
Leave the worktree with your change and demo applied. Keep your final answer short: a 5-10 line summary of the change, the demonstration and the verification results. If after honest effort you cannot satisfy all of (1)-(3), say so plainly and explain what blocked you rather than delivering something unverified.""")
