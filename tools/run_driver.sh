#!/bin/bash
# usage: run_driver.sh <repo_dir> <out_facts> [features]   (internal helper; see rules/facts.py)
set -e
REPO=$1; OUT=$2; FEAT=${3:-}
T=${VERIF_TARGET:-/verif/.cache/target}
mkdir -p $T
rm -rf $T/debug/.fingerprint/turdb-* 2>/dev/null || true
NONCE=$(date +%s%N)
rm -f $OUT
cd $REPO
LD_LIBRARY_PATH=$(rustc +nightly --print sysroot)/lib RUSTFLAGS="-Zmir-opt-level=0 -Awarnings" \
 RUSTC_WORKSPACE_WRAPPER=/verif/driver/target/release/turdb-facts CARGO_TARGET_DIR=$T CARGO_NET_OFFLINE=true \
 TURDB_FACTS_OUT=$OUT TURDB_FACTS_NONCE=$NONCE cargo +nightly check --offline --lib $FEAT >$OUT.log 2>&1 || { tail -30 $OUT.log; exit 3; }
test -s $OUT || { echo "driver produced no facts"; tail -20 $OUT.log; exit 3; }
head -1 $OUT | grep -q "$NONCE" || { echo "stale facts"; exit 3; }
