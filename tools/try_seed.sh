#!/bin/bash
# usage: try_seed.sh <patch.diff> <Cxx> [more Cxx...]   — apply a seeded change to /repo, run checks, always revert
P=$1; shift
cd /repo || exit 2
git diff --quiet || { echo "/repo has uncommitted changes; refusing"; exit 2; }
git apply "$P" || { echo "patch does not apply"; exit 2; }
for id in "$@"; do
  (cd /verif && ./check $id 2>&1 | grep -E "^property=|VIOLATED|VIOLATION|CHECK-ERROR|KNOWN" | cut -c1-260)
  echo "exit=$?"
done
git -C /repo checkout -- . ; git -C /repo status --short | head -3
