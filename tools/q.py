#!/usr/bin/env python3
"""model query helper (development aid): q.py calls <fn-substr> | callers <name-substr> | fns <substr> | who <callee-substr> | disc [substr] | cfg <fn>"""
import sys, os
sys.path.insert(0, '/verif/rules')
import model
m = model.load_model(os.environ.get('REPO','/repo'))
cmd = sys.argv[1]; arg = sys.argv[2] if len(sys.argv) > 2 else ''
if cmd == 'fns':
    for f in sorted(m.fns.values(), key=lambda f: f.id):
        if arg in f.id: print(f.id, f.vis, f.loc(), '->', f.ret[:60])
elif cmd == 'calls':
    for f in m.fns.values():
        if f.id.endswith(arg) or f.id == arg:
            print('==', f.id, f.loc())
            for c in sorted(f.calls, key=lambda c: c.line):
                if c.exp and not c.local: continue
                if any(x in c.name for x in ('ops::Try', 'FromResidual', 'Deref', 'fmt::', 'convert::', 'clone::Clone')): continue
                print('   L%d bb%d %s' % (c.line, c.bb, c.full[:150]))
elif cmd == 'who':
    for f in sorted(m.fns.values(), key=lambda f: f.id):
        for c in f.calls:
            if arg in c.full: print(f.id, c.loc(), c.full[:140])
elif cmd == 'callers':
    for k, v in m.callers().items():
        if arg in k:
            print(k); [print('   <-', x) for x in sorted(v)]
elif cmd == 'disc':
    for f in sorted(m.fns.values(), key=lambda f: f.id):
        for d in f.discards:
            if arg in f.id or arg in d['callee']:
                if d['kind'].startswith('soft_'): continue
                print(f.id, d['kind'], d['callee'], '%s:%s' % (d['file'], d['line']))
elif cmd == 'cfg':
    f = m.fn(arg)
    for i, b in enumerate(f.blocks):
        print(i, 'L%s' % b.get('l'), [s for s in b['s'] if s[0] != 'dead'][:4], b['t'][:2] if b['t'][0]!='call' else ('call', b['t'][1].get('rpa') or b['t'][1].get('pa'), '->', b['t'][4]), f.succ(i))
