#!/usr/bin/env python3
"""Run the repository's pinned test suite (guard OFF) in a source dir and compare with
/root/.vp/BASELINE.json stable_pass.  Usage: baseline.py [repo_dir]   (default /repo)
Exit 0 iff every stable_pass test passed.  Not a property check: used for hooks.baseline_off_cmd,
for confirming that seeded changes / fix: commits keep the suite green."""
import json, os, subprocess, sys, tempfile, xml.etree.ElementTree as ET, shutil
repo = os.path.abspath(sys.argv[1]) if len(sys.argv) > 1 else "/repo"
base = json.load(open("/root/.vp/BASELINE.json"))
stable = set(base["stable_pass"])
tmp = tempfile.mkdtemp(prefix="vbase")
cfg = os.path.join(tmp, "nextest.toml")
open(cfg, "w").write('[profile.pb]\nfail-fast = false\nretries = 0\nstatus-level = "fail"\nfinal-status-level = "flaky"\n'
                     'failure-output = "never"\nsuccess-output = "never"\nslow-timeout = { period = "60s", terminate-after = 5 }\n'
                     '[profile.pb.junit]\npath = "junit.xml"\nreport-name = "pb"\n')
env = dict(os.environ, CARGO_NET_OFFLINE="true")
p = subprocess.run(["cargo", "nextest", "run", "--workspace", "--no-fail-fast", "--tool-config-file", "pb:" + cfg,
                    "--profile", "pb", "--test-threads", "8", "--offline"], cwd=repo, env=env,
                   stdout=subprocess.PIPE, stderr=subprocess.STDOUT, text=True)
junit = os.path.join(repo, "target", "nextest", "pb", "junit.xml")
td = os.environ.get("CARGO_TARGET_DIR")
if td: junit = os.path.join(td, "nextest", "pb", "junit.xml")
passed, failed = set(), set()
if not os.path.exists(junit):
    print(p.stdout[-3000:]); print("BASELINE: no junit produced (build failure?)"); sys.exit(2)
for tc in ET.parse(junit).getroot().iter("testcase"):
    tid = (tc.get("classname") or "") + "::" + (tc.get("name") or "")
    if tc.find("failure") is not None or tc.find("error") is not None or tc.find("flakyFailure") is not None: failed.add(tid)
    elif tc.find("skipped") is None: passed.add(tid)
passed -= failed
shutil.rmtree(tmp, ignore_errors=True)
missing = sorted(stable - passed)
print(f"BASELINE: stable={len(stable)} passed_now={len(passed)} failed_now={len(failed)} stable_not_passing={len(missing)}")
for m in missing[:40]: print("  NOT PASSING:", m)
sys.exit(0 if not missing else 1)
