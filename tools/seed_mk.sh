#!/bin/bash
# usage: mk.sh Cxx  -> creates worktree /tmp/wt/Cxx with seeded target dir
set -e
id=$1
git -C /repo worktree add --detach /tmp/wt/$id HEAD >/dev/null 2>&1
cp -r /repo/target /tmp/wt/$id/target
mkdir -p /tmp/wt/$id.out
echo ok $id
