#!/usr/bin/env python3
"""One-off generator for rules/props/c23_scope.json: decoder functions whose out-of-bounds panic sites (outside loops) are all
discharged by rules/intervals.py on the tree at generation time.  The list is then frozen and reviewed; the check never regenerates it."""
import sys, json
sys.path.insert(0, '/verif/rules')
import model, intervals, codec
m = model.load_model()
pats = ['encoding::key::decode_', 'encoding::varint::decode_varint', 'schema::persistence::CatalogPersistence::deserialize', 'schema::persistence::CatalogPersistence::load',
        'sql::row_serde::RowSerde::deserialize', 'storage::wal::WalSegment::read_', 'storage::wal::Wal::read_page', '::from_bytes',
        'storage::toast::ToastPointer::decode', 'hnsw::storage::SlotEntry::decode', 'records::jsonb::JsonbView', 'records::array::ArrayView',
        'records::view::RecordView', 'btree::leaf::LeafNode::', 'btree::interior::InteriorNode::']
ZERO_OK = ('CatalogPersistence::load', 'CatalogPersistence::deserialize', 'WalSegment::read_frame', 'WalSegment::read_header_only', 'deserialize_row_into')
out = {}
for f in sorted(m.fns.values(), key=lambda f: f.id):
    if f.kind == 'closure' or not any(p in f.id for p in pats) or f.trait:
        continue
    s = [x for x in intervals.discharge_asserts(f) + intervals.discharge_range_index(f) + intervals.discharge_unwraps(f) if x[1].startswith(('bounds', 'range', 'unwrap'))]
    s = [x for x in s if not codec.in_loop(f, x[0])]
    bad = [x for x in s if not x[2]]
    if bad:
        continue
    if not s and not f.id.endswith(ZERO_OK):
        continue
    out[f.id] = len(s)
json.dump(out, open('/verif/rules/props/c23_scope.json', 'w'), indent=1, sort_keys=True)
print(len(out), sum(out.values()))
