#!/usr/bin/env python3
"""kf.py open <Cxx> <rule:key> <what>   |  kf.py fixed <Cxx> <commit> <rule:key> <what>   — edit /verif/known_findings.json"""
import json, sys
p = "/verif/known_findings.json"
d = json.load(open(p))
if sys.argv[1] == "open":
    _, _, pid, key, what = sys.argv
    d["open"] = [e for e in d["open"] if not (e["property"] == pid and e["key"] == key)]
    d["open"].append({"property": pid, "key": key, "what": what})
else:
    _, _, pid, commit, key, what = sys.argv
    d["fixed"].append({"property": pid, "commit": commit, "key": key, "what": "fixed: property=%s %s %s" % (pid, commit, what)})
json.dump(d, open(p, "w"), indent=1)
