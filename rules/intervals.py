"""E4: on-demand interval + linear (difference-bound) evaluation over one function's MIR, used only to DISCHARGE panic
sites (Assert terminators, slice range indexing, try_into().unwrap()) inside explicitly enumerated scopes.

A value is an interval [lo, hi] plus an optional linear form  sum(coeff*atom) + off  over atoms:
  ('len', root)            length of the slice/vec referenced by `root`
  ('sizeof', T)            std::mem::size_of::<T>()
  ('ver', root, where)     SSA-style version of a mutable cursor (`pos` local or `*offset`), resolved by dominance:
                           the nearest dominating store, a phi at an iterated-dominance-frontier block, or the initial value
  ('loc', l)               an opaque single-assignment value (call result, unknown)
Facts: definitions (constants, casts, arithmetic, bit operations, integer type ranges) and the branch conditions that dominate
the use site through exactly one arm.  Anything the engine cannot bound stays undischarged (never assumed)."""
import re
from model import operand_place, place_fields

TY = {"u8": (0, 2**8 - 1), "u16": (0, 2**16 - 1), "u32": (0, 2**32 - 1), "u64": (0, 2**64 - 1), "usize": (0, 2**64 - 1),
      "u128": (0, 2**128 - 1), "i8": (-2**7, 2**7 - 1), "i16": (-2**15, 2**15 - 1), "i32": (-2**31, 2**31 - 1),
      "i64": (-2**63, 2**63 - 1), "isize": (-2**63, 2**63 - 1), "i128": (-2**127, 2**127 - 1), "bool": (0, 1), "char": (0, 0x10FFFF)}
LEN_MAX = 2**63 - 1
INF = 10**40


class AV:
    __slots__ = ("lo", "hi", "lin", "off")

    def __init__(self, lo, hi, lin=None, off=0):
        self.lo, self.hi, self.lin, self.off = lo, hi, lin, off

    @property
    def atom(self):
        if self.lin and len(self.lin) == 1:
            (a, c), = self.lin.items()
            if c == 1:
                return a
        return None

    def __repr__(self):
        s = "[%s,%s]" % (self.lo if self.lo > -INF else "-inf", self.hi if self.hi < INF else "inf")
        if self.lin:
            s += "=" + "+".join("%s%s" % ("" if c == 1 else "%d*" % c, a[0] + str(a[1:2])) for a, c in self.lin.items()) + "%+d" % self.off
        return s


def ty_range(t):
    return TY.get(t)


def lin_add(a, b, sign=1):
    out = dict(a or {})
    for k, c in (b or {}).items():
        out[k] = out.get(k, 0) + sign * c
        if out[k] == 0:
            del out[k]
    return out


class Eval:
    def __init__(self, f):
        self.f = f
        self.defs = f.defs()
        self._memo = {}
        self._idom = None
        self._phis = {}
        self._stores = {}

    # ---------- dominator tree / phi placement ----------
    def idom(self):
        if self._idom is None:
            dom = self.f.dominators()
            idom = {}
            for b, ds in dom.items():
                best = None
                for d in ds:
                    if d == b:
                        continue
                    if best is None or len(dom[d]) > len(dom[best]):
                        best = d
                idom[b] = best
            self._idom = idom
        return self._idom

    def dom_frontier(self):
        key = "DF"
        if key in self._memo:
            return self._memo[key]
        f = self.f
        idom = self.idom()
        df = {b: set() for b in idom}
        preds = f.preds()
        for b in idom:
            ps = [p for p in preds[b] if p in idom]
            if len(ps) >= 2:
                for p in ps:
                    r = p
                    while r is not None and r != idom[b]:
                        df[r].add(b)
                        r = idom.get(r)
        self._memo[key] = df
        return df

    def root_stores(self, root):
        """definition sites of a mutable root: list of (bb, idx, kind, payload); idx = 10**6 for terminator-level defs"""
        if root in self._stores:
            return self._stores[root]
        f = self.f
        out = []
        if root[0] == "local":
            l = root[1]
            for d in self.defs.get(l, []):
                if d[0] == "stmt":
                    out.append((d[1], d[2], "rv", d[3]))
                else:
                    out.append((d[1], 10**6, "call", d[2]))
        else:  # ('deref', l): stores through (*alias) and calls receiving the &mut
            l = root[1]
            alias = {l}
            changed = True
            while changed:
                changed = False
                for l2, ds in self.defs.items():
                    if l2 in alias:
                        continue
                    for d in ds:
                        if d[0] == "stmt" and d[3][0] in ("use", "ref", "ptr", "cast"):
                            src = operand_place(d[3][1]) if d[3][0] == "use" else d[3][2] if d[3][0] in ("ref", "ptr") else operand_place(d[3][2])
                            if src is not None and src[0] in alias and src[1] in ([], ["*"]) and f.locals[l2].startswith("&mut"):
                                alias.add(l2)
                                changed = True
            for bb, b in enumerate(f.blocks):
                for i, s_ in enumerate(b["s"]):
                    if s_[0] == "=" and s_[1][0] in alias and s_[1][1] == ["*"]:
                        out.append((bb, i, "rv", s_[2]))
                t = b["t"]
                if t[0] == "call":
                    for a in t[2]:
                        pl = operand_place(a)
                        if pl is not None and pl[0] in alias and not pl[1] and f.locals[pl[0]].startswith("&mut"):
                            out.append((bb, 10**6, "call", None))
        self._stores[root] = out
        return out

    def phis(self, root):
        if root in self._phis:
            return self._phis[root]
        df = self.dom_frontier()
        work = [s[0] for s in self.root_stores(root) if s[0] in df]
        ph = set()
        seen = set(work)
        while work:
            b = work.pop()
            for y in df.get(b, ()):
                if y not in ph:
                    ph.add(y)
                    if y not in seen:
                        seen.add(y)
                        work.append(y)
        self._phis[root] = ph
        return ph

    def version(self, root, bb, idx, depth):
        """AV of mutable root read at (bb, idx)"""
        t = self.root_type(root)
        r = ty_range(t) or (-INF, INF)
        stores = self.root_stores(root)
        ph = self.phis(root)
        idom = self.idom()
        b = bb
        first = True
        while b is not None:
            cands = [s for s in stores if s[0] == b and (not first or s[1] < idx)]
            if cands:
                s = max(cands, key=lambda s: s[1])
                if s[2] == "rv" and depth > 0:
                    v = self.rvalue(s[3], r, (s[0], s[1]), depth - 1)
                    if v is not None:
                        return v
                return AV(r[0], r[1], {("ver", root, ("store", s[0], s[1])): 1}, 0)
            if b in ph:
                return AV(r[0], r[1], {("ver", root, ("phi", b)): 1}, 0)
            first = False
            b = idom.get(b)
        return AV(r[0], r[1], {("ver", root, ("init",)): 1}, 0)

    def root_type(self, root):
        t = self.f.locals[root[1]]
        if root[0] == "deref":
            t = t.replace("&mut ", "").replace("&", "").strip()
        return t

    def is_mutable_local(self, l):
        ds = self.defs.get(l, [])
        return len(ds) > 1 or (len(ds) == 1 and 1 <= l <= self.f.nargs)

    # ---------- values ----------
    def value(self, op, pos=None, depth=16, at=None):
        """AV of an operand; `pos` = (bb, idx) of the statement reading it (needed for mutable roots); `at` = block whose
        dominating conditions may be used to tighten the interval"""
        if op is None:
            return None
        if op[0] == "k":
            if op[4] is not None:
                return AV(op[4], op[4])
            r = ty_range(op[2])
            return AV(*r) if r else None
        pl = operand_place(op)
        if pl is None:
            return None
        v = self.place_value(pl, pos, depth, at)
        if v is not None and at is not None and v.lin:
            v = self.refine(v, at)
        return v

    def place_value(self, pl, pos, depth, at=None):
        l, proj = pl
        f = self.f
        t = f.locals[l]
        if depth <= 0:
            r = ty_range(t) if not proj else None
            return AV(r[0], r[1], {("loc", l): 1}, 0) if r else None
        if proj == ["*"]:
            inner = t.replace("&mut ", "").replace("&", "").strip()
            if ty_range(inner) and pos is not None:
                root = ("deref", self.ptr_root(l))
                return self.version(root, pos[0], pos[1], depth)
            return None
        ds = self.defs.get(l, [])
        if proj:
            if len(proj) == 1 and proj[0][0] == "f" and proj[0][1] == 0 and len(ds) == 1 and ds[0][0] == "stmt" and ds[0][3][0] == "bin" \
                    and ds[0][3][1].endswith("WithOverflow"):
                return self.binop(ds[0][3][1][:3], ds[0][3][2], ds[0][3][3], None, (ds[0][1], ds[0][2]), depth - 1, exact=True, at=at)
            return None
        r = ty_range(t)
        if r is None:
            return None
        if 1 <= l <= f.nargs and not ds:
            return AV(r[0], r[1], {("ver", ("local", l), ("init",)): 1}, 0)
        if self.is_mutable_local(l):
            if pos is None:
                return AV(r[0], r[1])
            return self.version(("local", l), pos[0], pos[1], depth)
        if not ds:
            return AV(r[0], r[1], {("loc", l): 1}, 0)
        d = ds[0]
        key = ("val", l, at)
        if key in self._memo:
            return self._memo[key]
        if d[0] == "call":
            v = self.call_value(l, d[2], r)
        else:
            v = self.rvalue(d[3], r, (d[1], d[2]), depth - 1, at, l)
        self._memo[key] = v
        return v

    def ptr_root(self, l, depth=8):
        while depth > 0:
            depth -= 1
            ds = self.defs.get(l, [])
            if len(ds) != 1 or ds[0][0] != "stmt":
                return l
            rv = ds[0][3]
            src = operand_place(rv[1]) if rv[0] == "use" else rv[2] if rv[0] in ("ref", "ptr") else operand_place(rv[2]) if rv[0] == "cast" else None
            if src is None or src[1] not in ([], ["*"]):
                return l
            if not self.f.locals[src[0]].startswith("&"):
                return l
            l = src[0]
        return l

    def call_value(self, l, c, r):
        n = c.name if c else ""
        if n.endswith("mem::size_of"):
            return AV(0, 2**32, {("sizeof", c.full): 1}, 0)
        if n.endswith("<impl [T]>::len") or n.endswith("Vec::<T, A>::len") or n.endswith("str::len") or n.endswith("::len"):
            base = self.root_of_ref(c.args[0]) if c.args else None
            return AV(0, LEN_MAX, {("len", base) if base is not None else ("loc", l): 1}, 0)
        return AV(r[0], r[1], {("loc", l): 1}, 0)

    def rvalue(self, rv, r, pos, depth, at=None, l=None):
        k = rv[0]
        opaque = AV(r[0], r[1], {("loc", l): 1}, 0) if l is not None else AV(r[0], r[1])
        if k == "use":
            v = self.value(rv[1], pos, depth, at)
            return v if v is not None else opaque
        if k == "cast":
            v = self.value(rv[2], pos, depth, at)
            if v is None:
                return opaque
            if v.lo >= r[0] and v.hi <= r[1]:
                return AV(v.lo, v.hi, v.lin, v.off)
            return opaque
        if k == "bin":
            v = self.binop(rv[1], rv[2], rv[3], r, pos, depth, at=at)
            if v is None:
                return opaque
            if not v.lin and l is not None and v.lo != v.hi:
                v.lin, v.off = {("loc", l): 1}, 0
            return v
        if k == "un" and rv[1] == "PtrMetadata":
            base = self.root_of_ref(rv[2])
            return AV(0, LEN_MAX, {("len", base) if base is not None else ("loc", l): 1}, 0)
        return opaque

    def root_of_ref(self, op, depth=10):
        pl = operand_place(op)
        while pl is not None and depth > 0:
            depth -= 1
            l, proj = pl
            if proj and proj != ["*"]:
                return ("place", l, str(proj))
            ds = self.defs.get(l, [])
            if len(ds) != 1 or ds[0][0] != "stmt":
                return l
            rv = ds[0][3]
            if rv[0] == "use":
                pl = operand_place(rv[1])
            elif rv[0] in ("ref", "ptr"):
                pl = rv[2]
            elif rv[0] == "cast":
                pl = operand_place(rv[2])
            else:
                return l
            if pl is None:
                return l
        return None

    def binop(self, op, a, b, r, pos, depth, exact=False, at=None):
        op3 = op[:3]
        va, vb = self.value(a, pos, depth, at), self.value(b, pos, depth, at)
        if va is None or vb is None:
            return None
        lo = hi = None
        lin, off = None, 0
        if op3 == "Add":
            lo, hi = va.lo + vb.lo, va.hi + vb.hi
            if (va.lin or va.lo == va.hi) and (vb.lin or vb.lo == vb.hi):
                lin = lin_add(va.lin, vb.lin)
                off = (va.off if va.lin else va.lo) + (vb.off if vb.lin else vb.lo)
        elif op3 == "Sub":
            lo, hi = va.lo - vb.hi, va.hi - vb.lo
            if (va.lin or va.lo == va.hi) and (vb.lin or vb.lo == vb.hi):
                lin = lin_add(va.lin, vb.lin, -1)
                off = (va.off if va.lin else va.lo) - (vb.off if vb.lin else vb.lo)
        elif op3 == "Mul":
            c = [va.lo * vb.lo, va.lo * vb.hi, va.hi * vb.lo, va.hi * vb.hi]
            lo, hi = min(c), max(c)
            if vb.lo == vb.hi and va.lin is not None:
                lin = {k_: c_ * vb.lo for k_, c_ in va.lin.items()} if vb.lo else {}
                off = va.off * vb.lo
            elif va.lo == va.hi and vb.lin is not None:
                lin = {k_: c_ * va.lo for k_, c_ in vb.lin.items()} if va.lo else {}
                off = vb.off * va.lo
        elif op3 == "Shl":
            if vb.lo == vb.hi and 0 <= vb.lo < 128 and va.lo >= 0:
                lo, hi = va.lo << vb.lo, va.hi << vb.lo
        elif op3 == "Shr":
            if vb.lo == vb.hi and 0 <= vb.lo < 128 and va.lo >= 0:
                lo, hi = va.lo >> vb.lo, va.hi >> vb.lo
        elif op == "BitAnd":
            if va.lo >= 0 and vb.lo >= 0:
                lo, hi = 0, min(va.hi, vb.hi)
        elif op in ("BitOr", "BitXor"):
            if va.lo >= 0 and vb.lo >= 0:
                m_ = max(va.hi, vb.hi)
                lo, hi = 0, (1 << m_.bit_length()) - 1
        elif op3 == "Rem":
            if vb.lo > 0 and va.lo >= 0:
                lo, hi = 0, min(va.hi, vb.hi - 1)
        elif op3 == "Div":
            if vb.lo > 0 and va.lo >= 0:
                lo, hi = va.lo // vb.hi, va.hi // vb.lo
        if lo is None:
            return AV(r[0], r[1]) if r else None
        if r and not exact and (lo < r[0] or hi > r[1]):
            return AV(r[0], r[1])  # may wrap: unknown
        if lin is not None and not lin:
            return AV(lo, hi)
        return AV(lo, hi, lin, off)

    # ---------- dominating facts ----------
    def conditions_at(self, bb):
        """(cmp, lhs AV, rhs AV, switch_bb) for bool switches that dominate bb through exactly one arm (normalised to truth)"""
        key = ("cond", bb)
        if key in self._memo:
            return self._memo[key]
        self._memo[key] = []   # recursion guard
        f = self.f
        out = []
        dom = f.dominators().get(bb, set())
        NEG = {"Lt": "Ge", "Le": "Gt", "Gt": "Le", "Ge": "Lt", "Eq": "Ne", "Ne": "Eq"}
        for s in dom:
            if s == bb:
                continue
            t = f.blocks[s]["t"]
            if t[0] != "switch" or t[2] != "bool":
                continue
            false_t = [x[1] for x in t[3] if x[0] == 0] or [t[4]]
            true_t = [x[1] for x in t[3] if x[0] == 1] or [t[4]]
            truth = None
            if all(f.dominates(x, bb) for x in true_t) and not any(f.dominates(x, bb) for x in false_t if x not in true_t):
                truth = True
            elif all(f.dominates(x, bb) for x in false_t) and not any(f.dominates(x, bb) for x in true_t if x not in false_t):
                truth = False
            if truth is None:
                continue
            pl = operand_place(t[1])
            if pl is None or pl[1]:
                continue
            l = pl[0]
            neg = False
            cmp_ = None
            for _ in range(8):
                ds = self.defs.get(l, [])
                if len(ds) != 1:
                    break
                d = ds[0]
                if d[0] == "call":
                    c = d[2]
                    if c is not None and c.name.endswith("::is_empty") and c.args:
                        cmp_ = ("EMPTY", self.root_of_ref(c.args[0]), None, None)
                    break
                rv = d[3]
                if rv[0] == "use" and operand_place(rv[1]) and not operand_place(rv[1])[1]:
                    l = operand_place(rv[1])[0]
                elif rv[0] == "un" and rv[1] == "Not" and operand_place(rv[2]) and not operand_place(rv[2])[1]:
                    l = operand_place(rv[2])[0]
                    neg = not neg
                elif rv[0] == "bin" and rv[1] in NEG:
                    cmp_ = (rv[1], rv[2], rv[3], (d[1], d[2]))
                    break
                else:
                    break
            if cmp_ is None:
                continue
            if neg:
                truth = not truth
            if cmp_[0] == "EMPTY":
                out.append(("EMPTY" if truth else "NONEMPTY", cmp_[1], None, s))
                continue
            op, a, b, pos = cmp_
            va, vb = self.value(a, pos), self.value(b, pos)
            if va is None or vb is None:
                continue
            out.append((op if truth else NEG[op], va, vb, s))
        self._memo[key] = out
        return out

    def refine(self, v, bb):
        if v is None or not v.lin:
            return v
        lo, hi = v.lo, v.hi
        SW = {"Lt": "Gt", "Le": "Ge", "Gt": "Lt", "Ge": "Le", "Eq": "Eq", "Ne": "Ne"}
        for op, va, vb, s in self.conditions_at(bb):
            if op in ("EMPTY", "NONEMPTY"):
                if op == "NONEMPTY" and v.lin == {("len", va): 1}:
                    lo = max(lo, 1 + v.off)
                continue
            for (x, y, o) in ((va, vb, op), (vb, va, SW[op])):
                if not x.lin or x.lin != v.lin:
                    continue
                d = v.off - x.off      # v = x + d
                if o == "Lt":
                    hi = min(hi, y.hi - 1 + d)
                elif o == "Le":
                    hi = min(hi, y.hi + d)
                elif o == "Gt":
                    lo = max(lo, y.lo + 1 + d)
                elif o == "Ge":
                    lo = max(lo, y.lo + d)
                elif o == "Eq":
                    lo, hi = max(lo, y.lo + d), min(hi, y.hi + d)
                elif o == "Ne" and y.lo == y.hi:
                    if lo == y.lo + d:
                        lo += 1
                    if hi == y.lo + d:
                        hi -= 1
        return AV(lo, hi, v.lin, v.off)

    def fixed_vec_len(self, root):
        """n if `root` is a Vec created by vec![x; n] (from_elem) with constant n and never handed out as &mut Vec"""
        if not isinstance(root, int):
            return None
        f = self.f
        ds = self.defs.get(root, [])
        if len(ds) != 1 or ds[0][0] != "call" or ds[0][2] is None or not ds[0][2].name.endswith("vec::from_elem"):
            return None
        c = ds[0][2]
        n = self.value(c.args[1], (c.bb, 10**6)) if len(c.args) > 1 else None
        if n is None or n.lo != n.hi:
            return None
        # any call that receives `&mut Vec` of this root (other than views) may change its length
        for c2 in f.calls:
            for a in c2.args:
                pl = operand_place(a)
                if pl is None or pl[1]:
                    continue
                if not f.locals[pl[0]].startswith("&mut std::vec::Vec"):
                    continue
                if self.root_of_ref(a) == root and not any(c2.name.endswith(x) for x in ("::deref_mut", "::index_mut", "::as_mut_slice", "::as_mut", "IndexMut<I>>::index_mut")):
                    return None
        return n.lo

    def atom_bounds(self, atom, bb):
        if atom[0] == "len":
            n = self.fixed_vec_len(atom[1])
            v = AV(n, n, {atom: 1}, 0) if n is not None else AV(0, LEN_MAX, {atom: 1}, 0)
        elif atom[0] == "sizeof":
            v = AV(0, 2**32, {atom: 1}, 0)
        elif atom[0] == "ver":
            r = ty_range(self.root_type(atom[1])) or (-INF, INF)
            v = AV(r[0], r[1], {atom: 1}, 0)
        elif atom[0] == "loc":
            r = ty_range(self.f.locals[atom[1]]) or (-INF, INF)
            ds = self.defs.get(atom[1], [])
            v = AV(r[0], r[1], {atom: 1}, 0)
            if len(ds) == 1 and ds[0][0] == "stmt":
                v0 = self.rvalue(ds[0][3], r, (ds[0][1], ds[0][2]), 6)
                if v0 is not None:
                    v = AV(max(v.lo, v0.lo), min(v.hi, v0.hi), {atom: 1}, 0)
        else:
            v = AV(-INF, INF, {atom: 1}, 0)
        return self.refine(v, bb)

    def diff_lower_bound(self, big, small, bb):
        """best known lower bound of (big - small) at block bb"""
        if big is None or small is None:
            return None
        b2 = self.refine(big, bb)
        s2 = self.refine(small, bb)
        best = b2.lo - s2.hi
        if (big.lin is None and big.lo != big.hi) or (small.lin is None and small.lo != small.hi):
            return best
        blin = big.lin or {}
        slin = small.lin or {}
        boff = big.off if big.lin else big.lo
        soff = small.off if small.lin else small.lo
        D = lin_add(blin, slin, -1)
        doff = boff - soff
        lb = doff
        for a, c in D.items():
            ab = self.atom_bounds(a, bb)
            lb += c * (ab.lo if c > 0 else ab.hi)
        best = max(best, lb)
        for op, va, vb, s in self.conditions_at(bb):
            if op in ("EMPTY", "NONEMPTY"):
                continue
            cons = []
            if op == "Lt":
                cons.append((vb, va, 1))
            elif op == "Le":
                cons.append((vb, va, 0))
            elif op == "Gt":
                cons.append((va, vb, 1))
            elif op == "Ge":
                cons.append((va, vb, 0))
            elif op == "Eq":
                cons.append((va, vb, 0))
                cons.append((vb, va, 0))
            for Y, X, k in cons:
                if (Y.lin is None and Y.lo != Y.hi) or (X.lin is None and X.lo != X.hi):
                    continue
                ylin, xlin = Y.lin or {}, X.lin or {}
                yoff = Y.off if Y.lin else Y.lo
                xoff = X.off if X.lin else X.lo
                C = lin_add(ylin, xlin, -1)      # Y - X >= k  =>  C + (yoff - xoff) >= k
                R = lin_add(D, C, -1)            # residual must be bounded below by intervals
                lbr = doff - (yoff - xoff) + k
                ok = True
                for a, c in R.items():
                    ab = self.atom_bounds(a, bb)
                    bound = ab.lo if c > 0 else ab.hi
                    if abs(bound) >= INF:
                        ok = False
                        break
                    lbr += c * bound
                if ok:
                    best = max(best, lbr)
        return best


# ---------------- discharge of panic sites ----------------
def discharge_asserts(f):
    """[(bb, kind, discharged, reason, line)] for every Assert terminator of f"""
    ev = Eval(f)
    out = []
    for bb, b in enumerate(f.blocks):
        t = b["t"]
        if t[0] != "assert":
            continue
        kind = t[3]
        k = kind[0]
        line = t[5]
        pos = (bb, 10**6)
        if k == "bounds":
            vl, vi = ev.value(kind[1]["o"], pos), ev.value(kind[2]["o"], pos)
            d = ev.diff_lower_bound(vl, vi, bb)
            ok = d is not None and d >= 1
            out.append((bb, "bounds", ok, "len - index >= %s" % d, line))
        elif k == "overflow":
            opn = kind[1]
            a, b_ = kind[2], kind[3]
            r = ty_range(a["ty"])
            va, vb = ev.value(a["o"], pos, at=bb), ev.value(b_["o"], pos, at=bb)
            ok = False
            why = "%s %s %s in %s" % (va, opn, vb, a["ty"])
            if r and va is not None and vb is not None:
                if opn == "Add":
                    ok = va.hi + vb.hi <= r[1] and va.lo + vb.lo >= r[0]
                elif opn == "Sub":
                    ok = va.lo - vb.hi >= r[0] and va.hi - vb.lo <= r[1]
                    if not ok and r[0] == 0:
                        d = ev.diff_lower_bound(ev.value(a["o"], pos), ev.value(b_["o"], pos), bb)
                        if d is not None and d >= 0:
                            ok = True
                            why += " (a-b >= %d)" % d
                elif opn == "Mul":
                    c = [va.lo * vb.lo, va.lo * vb.hi, va.hi * vb.lo, va.hi * vb.hi]
                    ok = min(c) >= r[0] and max(c) <= r[1]
                elif opn in ("Shl", "Shr"):
                    bits = {"u8": 8, "i8": 8, "u16": 16, "i16": 16, "u32": 32, "i32": 32, "u64": 64, "i64": 64, "usize": 64,
                            "isize": 64, "u128": 128, "i128": 128}.get(a["ty"])
                    ok = bits is not None and vb.lo >= 0 and vb.hi < bits
            out.append((bb, "overflow:" + opn, ok, why, line))
        elif k in ("div_zero", "rem_zero"):
            v = ev.value(kind[1]["o"], pos, at=bb)
            ok = v is not None and (v.lo > 0 or v.hi < 0)
            out.append((bb, k, ok, "divisor %s" % v, line))
        elif k == "overflow_neg":
            v = ev.value(kind[1]["o"], pos, at=bb)
            r = ty_range(kind[1]["ty"])
            ok = v is not None and r is not None and v.lo > r[0]
            out.append((bb, k, ok, "operand %s" % v, line))
        else:
            out.append((bb, k, False, str(kind)[:60], line))
    return out


RANGE_INDEX = re.compile(r"(?:slice::index::<impl (?:std|core)::ops::Index(?:Mut)?<(?:std|core)::ops::(Range|RangeTo|RangeFrom|RangeInclusive|RangeToInclusive)<usize>> for \[(\w+)\]>::index"
                         r"|<std::vec::Vec<(\w+)> as std::ops::Index(?:Mut)?<std::ops::(Range|RangeTo|RangeFrom|RangeInclusive|RangeToInclusive)<usize>>>::index)")
VEC_SCALAR_INDEX = re.compile(r"<std::vec::Vec<\w+> as std::ops::Index(?:Mut)?<usize>>::index")


def range_operands(f, c):
    mm = RANGE_INDEX.search(c.full)
    if not mm or len(c.args) < 2:
        return None
    kind = mm.group(1) or mm.group(4)
    rpl = operand_place(c.args[1])
    lo_op = hi_op = None
    pos = None
    if rpl is not None and not rpl[1]:
        ds = f.defs().get(rpl[0], [])
        if len(ds) == 1 and ds[0][0] == "stmt" and ds[0][3][0] == "agg" and ds[0][3][1] == "adt":
            ops = ds[0][3][4]
            pos = (ds[0][1], ds[0][2])
            if kind == "Range" and len(ops) == 2:
                lo_op, hi_op = ops
            elif kind == "RangeTo" and len(ops) == 1:
                hi_op = ops[0]
            elif kind == "RangeFrom" and len(ops) == 1:
                lo_op = ops[0]
    return kind, lo_op, hi_op, pos


def discharge_range_index(f):
    """slice[a..b] / vec[a..b] / vec[i] sites: discharged when a <= b <= len (resp. i < len) is known"""
    ev = Eval(f)
    out = []
    for c in f.calls:
        if VEC_SCALAR_INDEX.search(c.full) and len(c.args) > 1:
            base = ev.root_of_ref(c.args[0])
            lenv = AV(0, LEN_MAX, {("len", base): 1}, 0)
            vi = ev.value(c.args[1], (c.bb, 10**6))
            d = ev.diff_lower_bound(lenv, vi, c.bb)
            out.append((c.bb, "bounds:vec", d is not None and d >= 1, "len - index >= %s" % d, c.line))
            continue
        ro = range_operands(f, c)
        if ro is None:
            continue
        kind, lo_op, hi_op, pos = ro
        base = ev.root_of_ref(c.args[0])
        lenv = AV(0, LEN_MAX, {("len", base): 1}, 0)
        ok = False
        why = "range operands not resolved"
        if kind == "Range" and lo_op is not None and hi_op is not None:
            vlo, vhi = ev.value(lo_op, pos), ev.value(hi_op, pos)
            d1 = ev.diff_lower_bound(lenv, vhi, c.bb)
            d2 = ev.diff_lower_bound(vhi, vlo, c.bb)
            ok = d1 is not None and d1 >= 0 and d2 is not None and d2 >= 0
            why = "len-end >= %s, end-start >= %s" % (d1, d2)
        elif kind == "RangeTo" and hi_op is not None:
            d1 = ev.diff_lower_bound(lenv, ev.value(hi_op, pos), c.bb)
            ok = d1 is not None and d1 >= 0
            why = "len-end >= %s" % d1
        elif kind == "RangeFrom" and lo_op is not None:
            d1 = ev.diff_lower_bound(lenv, ev.value(lo_op, pos), c.bb)
            ok = d1 is not None and d1 >= 0
            why = "len-start >= %s" % d1
        out.append((c.bb, "range:" + kind, ok, why, c.line))
    return out


def discharge_unwraps(f):
    """`<[u8] -> [u8; N]>::try_into().unwrap()` sites: discharged when the source is a range index with constant length N.
    Any other unwrap/expect on Result/Option in the function is reported undischarged."""
    from paths import source_call
    ev = Eval(f)
    out = []
    for c in f.calls:
        n = c.name
        if not (n.endswith("Result::<T, E>::unwrap") or n.endswith("Result::<T, E>::expect") or n.endswith("Option::<T>::unwrap") or n.endswith("Option::<T>::expect")):
            continue
        ok = False
        why = "unwrap of a value that may be Err/None"
        mm = re.search(r"Result::<\[u8; (\d+)\], std::array::TryFromSliceError>::(unwrap|expect)", c.full)
        if mm and c.args:
            N = int(mm.group(1))
            pl = operand_place(c.args[0])
            src = source_call(f, pl[0]) if pl and not pl[1] else None
            hops = 0
            while src is not None and hops < 4 and not RANGE_INDEX.search(src.full):
                p0 = operand_place(src.args[0]) if src.args else None
                src = source_call(f, p0[0]) if p0 and not p0[1] else None
                hops += 1
            if src is not None:
                ro = range_operands(f, src)
                if ro and ro[0] == "Range" and ro[1] is not None and ro[2] is not None:
                    lo, hi, pos = ro[1], ro[2], ro[3]
                    d = ev.diff_lower_bound(ev.value(hi, pos), ev.value(lo, pos), c.bb)
                    d2 = ev.diff_lower_bound(ev.value(lo, pos), ev.value(hi, pos), c.bb)
                    if d is not None and d2 is not None and d == N and d2 == -N:
                        ok = True
                        why = "slice of constant length %d converted to [u8; %d]" % (N, N)
        out.append((c.bb, "unwrap", ok, why, c.line))
    return out
