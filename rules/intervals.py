"""E4: on-demand interval + difference-bound evaluation over one function's MIR, used only to DISCHARGE panic sites
(Assert terminators, slice range indexing) inside explicitly enumerated scopes.

A value is described by an interval [lo, hi] and optionally a symbolic form atom + off where atom is
('loc', root_local) or ('len', root_local_of_slice).  Facts come from (a) definitions (constants, casts, arithmetic,
bit operations, integer types), (b) the branch conditions that dominate the use site through exactly one arm.
Mutable roots are handled by requiring that no definition of the root lies between the dominating condition and the use."""
import re
from model import operand_place, place_fields

TY = {"u8": (0, 2**8 - 1), "u16": (0, 2**16 - 1), "u32": (0, 2**32 - 1), "u64": (0, 2**64 - 1), "usize": (0, 2**64 - 1),
      "u128": (0, 2**128 - 1), "i8": (-2**7, 2**7 - 1), "i16": (-2**15, 2**15 - 1), "i32": (-2**31, 2**31 - 1),
      "i64": (-2**63, 2**63 - 1), "isize": (-2**63, 2**63 - 1), "i128": (-2**127, 2**127 - 1), "bool": (0, 1), "char": (0, 0x10FFFF)}
LEN_MAX = 2**63 - 1


class AV:
    __slots__ = ("lo", "hi", "atom", "off")

    def __init__(self, lo, hi, atom=None, off=0):
        self.lo, self.hi, self.atom, self.off = lo, hi, atom, off

    def __repr__(self):
        s = "[%s,%s]" % (self.lo, self.hi)
        if self.atom:
            s += "=%s%+d" % (self.atom, self.off)
        return s


def ty_range(t):
    return TY.get(t)


class Eval:
    def __init__(self, f):
        self.f = f
        self.defs = f.defs()
        self._memo = {}

    # ---------- structural value ----------
    def op_ty(self, op):
        if op[0] == "k":
            return op[2]
        pl = operand_place(op)
        if pl is None:
            return None
        if not pl[1]:
            return self.f.locals[pl[0]]
        return None

    def value(self, op, depth=14, at=None):
        """AV from definitions only (no path conditions)"""
        if op is None:
            return None
        if op[0] == "k":
            if op[4] is not None:
                return AV(op[4], op[4])
            r = ty_range(op[2])
            return AV(*r) if r else None
        pl = operand_place(op)
        if pl is None:
            return None
        v = self.place_value(pl, depth, at)
        if v is not None and at is not None and v.atom is not None:
            v = self.refine(v, at)
        return v

    def place_value(self, pl, depth, at=None):
        l, proj = pl
        f = self.f
        if depth <= 0:
            r = ty_range(f.locals[l]) if not proj else None
            return AV(r[0], r[1], ("loc", l), 0) if r else None
        ds = self.defs.get(l, [])
        if proj:
            # (_t.0) of checked arithmetic
            if len(proj) == 1 and proj[0][0] == "f" and proj[0][1] == 0 and len(ds) == 1 and ds[0][0] == "stmt" and ds[0][3][0] == "bin" \
                    and ds[0][3][1].endswith("WithOverflow"):
                return self.binop(ds[0][3][1][:3], ds[0][3][2], ds[0][3][3], None, depth - 1, exact=True, at=at)
            return None
        t = f.locals[l]
        r = ty_range(t)
        if len(ds) != 1:
            # parameters and multiply-assigned locals: type range, symbolic root = the local itself
            if r:
                return AV(r[0], r[1], ("loc", l), 0)
            return None
        d = ds[0]
        if d[0] == "call":
            c = d[2]
            n = c.name if c else ""
            if n.endswith("<impl [T]>::len") or n.endswith("Vec::<T, A>::len") or n.endswith("str::len") or n.endswith("::len"):
                base = self.root_of_ref(c.args[0]) if c.args else None
                return AV(0, LEN_MAX, ("len", base) if base is not None else ("loc", l), 0)
            if r:
                return AV(r[0], r[1], ("loc", l), 0)
            return None
        rv = d[3]
        k = rv[0]
        if k == "use":
            v = self.value(rv[1], depth - 1, at)
            if v is None and r:
                return AV(r[0], r[1], ("loc", l), 0)
            return v
        if k == "cast" and r:
            v = self.value(rv[2], depth - 1, at)
            if v is None:
                return AV(r[0], r[1], ("loc", l), 0)
            if v.lo >= r[0] and v.hi <= r[1]:
                return AV(v.lo, v.hi, v.atom, v.off)   # value preserving
            return AV(r[0], r[1], ("loc", l), 0)
        if k == "bin" and r:
            v = self.binop(rv[1], rv[2], rv[3], r, depth - 1, at=at)
            if v is not None:
                if v.atom is None:
                    v.atom, v.off = ("loc", l), 0
                return v
            return AV(r[0], r[1], ("loc", l), 0)
        if k == "other" and "PtrMetadata" in str(rv[1]):
            return AV(0, LEN_MAX, ("loc", l), 0)
        if k == "un" and rv[1] == "PtrMetadata":
            base = self.root_of_ref(rv[2])
            return AV(0, LEN_MAX, ("len", base) if base is not None else ("loc", l), 0)
        if r:
            return AV(r[0], r[1], ("loc", l), 0)
        return None

    def root_of_ref(self, op, depth=8):
        """canonical local of a slice/vec reference operand (through copies, reborrows, derefs)"""
        pl = operand_place(op)
        while pl is not None and depth > 0:
            depth -= 1
            l, proj = pl
            if proj and proj != ["*"]:
                return ("place", l, str(proj))
            ds = self.defs.get(l, [])
            if len(ds) != 1 or ds[0][0] != "stmt":
                return l
            rv = ds[0][3]
            if rv[0] == "use":
                pl = operand_place(rv[1])
            elif rv[0] in ("ref", "ptr"):
                pl = rv[2]
            elif rv[0] == "cast":
                pl = operand_place(rv[2])
            else:
                return l
            if pl is None:
                return l
        return None

    def binop(self, op, a, b, r, depth, exact=False, at=None):
        op3 = op[:3]
        va, vb = self.value(a, depth, at), self.value(b, depth, at)
        if va is None or vb is None:
            return None
        lo = hi = None
        atom, off = None, 0
        if op3 == "Add":
            lo, hi = va.lo + vb.lo, va.hi + vb.hi
            if vb.lo == vb.hi and va.atom:
                atom, off = va.atom, va.off + vb.lo
            elif va.lo == va.hi and vb.atom:
                atom, off = vb.atom, vb.off + va.lo
        elif op3 == "Sub":
            lo, hi = va.lo - vb.hi, va.hi - vb.lo
            if vb.lo == vb.hi and va.atom:
                atom, off = va.atom, va.off - vb.lo
        elif op3 == "Mul":
            c = [va.lo * vb.lo, va.lo * vb.hi, va.hi * vb.lo, va.hi * vb.hi]
            lo, hi = min(c), max(c)
        elif op == "Shl" or op3 == "Shl":
            if vb.lo == vb.hi and 0 <= vb.lo < 128 and va.lo >= 0:
                lo, hi = va.lo << vb.lo, va.hi << vb.lo
        elif op3 == "Shr":
            if vb.lo == vb.hi and 0 <= vb.lo < 128 and va.lo >= 0:
                lo, hi = va.lo >> vb.lo, va.hi >> vb.lo
        elif op == "BitAnd":
            if va.lo >= 0 and vb.lo >= 0:
                lo, hi = 0, min(va.hi, vb.hi)
        elif op in ("BitOr", "BitXor"):
            if va.lo >= 0 and vb.lo >= 0:
                m_ = max(va.hi, vb.hi)
                lo, hi = 0, (1 << m_.bit_length()) - 1
        elif op3 == "Rem":
            if vb.lo > 0 and va.lo >= 0:
                lo, hi = 0, vb.hi - 1
        elif op3 == "Div":
            if vb.lo > 0 and va.lo >= 0:
                lo, hi = va.lo // vb.hi, va.hi // vb.lo
        if lo is None:
            return AV(r[0], r[1]) if r else None
        if r and not exact and (lo < r[0] or hi > r[1]):
            if op3 in ("Shl",):
                return AV(r[0], r[1])
            return AV(r[0], r[1])  # wrapped: unknown
        return AV(lo, hi, atom, off)

    # ---------- dominating facts ----------
    def conditions_at(self, bb):
        """list of (cmp_op, lhs_operand, rhs_operand, truth) for bool switches that dominate bb through exactly one arm"""
        key = ("cond", bb)
        if key in self._memo:
            return self._memo[key]
        f = self.f
        out = []
        dom = f.dominators().get(bb, set())
        for s in dom:
            if s == bb:
                continue
            t = f.blocks[s]["t"]
            if t[0] != "switch" or t[2] != "bool":
                continue
            false_t = [x[1] for x in t[3] if x[0] == 0] or [t[4]]
            true_t = [x[1] for x in t[3] if x[0] == 1] or [t[4]]
            truth = None
            if all(f.dominates(x, bb) for x in true_t) and not any(f.dominates(x, bb) for x in false_t if x not in true_t):
                truth = True
            elif all(f.dominates(x, bb) for x in false_t) and not any(f.dominates(x, bb) for x in true_t if x not in false_t):
                truth = False
            if truth is None:
                continue
            pl = operand_place(t[1])
            if pl is None or pl[1]:
                continue
            k, p, neg = f.origin(pl[0])
            if neg:
                truth = not truth
            if k == "rvalue" and p[0] == "bin" and p[1] in ("Lt", "Le", "Gt", "Ge", "Eq", "Ne"):
                out.append((p[1], p[2], p[3], truth, s))
            elif k == "call" and p is not None and (p.name.endswith("::is_empty")) and p.args:
                base = self.root_of_ref(p.args[0])
                out.append(("EMPTY", base, None, truth, s))
        self._memo[key] = out
        return out

    def no_redef_between(self, atom, cond_bb, use_bb):
        if atom is None or atom[0] != "loc":
            return True
        l = atom[1]
        ds = self.defs.get(l, [])
        if len(ds) <= 1:
            return True
        f = self.f
        fwd = f.reachable([cond_bb])
        for d in ds:
            dbb = d[1]
            if dbb in fwd and dbb != cond_bb and use_bb in f.reachable([dbb]) and f.dominates(cond_bb, dbb):
                return False
        return True

    def refine(self, v, bb):
        """tighten interval of v using dominating comparisons against constants / other values"""
        if v is None:
            return None
        lo, hi = v.lo, v.hi
        for op, a, b, truth, s in self.conditions_at(bb):
            if op == "EMPTY":
                if v.atom == ("len", a) and truth is False:
                    lo = max(lo, 1 - v.off)
                continue
            va, vb = self.value(a), self.value(b)
            if va is None or vb is None:
                continue
            for (x, y, o) in ((va, vb, op), (vb, va, {"Lt": "Gt", "Le": "Ge", "Gt": "Lt", "Ge": "Le", "Eq": "Eq", "Ne": "Ne"}[op])):
                if x.atom is None or x.atom != v.atom:
                    continue
                if not self.no_redef_between(x.atom, s, bb):
                    continue
                d = v.off - x.off      # v = x + d
                oo = o if truth else {"Lt": "Ge", "Le": "Gt", "Gt": "Le", "Ge": "Lt", "Eq": "Ne", "Ne": "Eq"}[o]
                if oo == "Lt":
                    hi = min(hi, y.hi - 1 + d)
                elif oo == "Le":
                    hi = min(hi, y.hi + d)
                elif oo == "Gt":
                    lo = max(lo, y.lo + 1 + d)
                elif oo == "Ge":
                    lo = max(lo, y.lo + d)
                elif oo == "Eq":
                    lo, hi = max(lo, y.lo + d), min(hi, y.hi + d)
                elif oo == "Ne" and y.lo == y.hi:
                    if lo == y.lo + d:
                        lo += 1
                    if hi == y.lo + d:
                        hi -= 1
        return AV(lo, hi, v.atom, v.off)

    def diff_lower_bound(self, big, small, bb):
        """best known lower bound of (big - small) for two symbolic values at block bb"""
        best = None
        if big is None or small is None:
            return None
        b2, s2 = self.refine(big, bb), self.refine(small, bb)
        best = b2.lo - s2.hi
        if big.atom is None or small.atom is None:
            return best
        if big.atom == small.atom:
            best = max(best, big.off - small.off)
        for op, a, b, truth, s in self.conditions_at(bb):
            if op == "EMPTY":
                continue
            va, vb = self.value(a), self.value(b)
            if va is None or vb is None or va.atom is None or vb.atom is None:
                continue
            if not (self.no_redef_between(va.atom, s, bb) and self.no_redef_between(vb.atom, s, bb)):
                continue
            oo = op if truth else {"Lt": "Ge", "Le": "Gt", "Gt": "Le", "Ge": "Lt", "Eq": "Ne", "Ne": "Eq"}[op]
            # normalise to  Y - X >= k   with X = va, Y = vb (or swapped)
            cons = []
            if oo == "Lt":
                cons.append((vb, va, 1))
            elif oo == "Le":
                cons.append((vb, va, 0))
            elif oo == "Gt":
                cons.append((va, vb, 1))
            elif oo == "Ge":
                cons.append((va, vb, 0))
            elif oo == "Eq":
                cons.append((va, vb, 0))
                cons.append((vb, va, 0))
            for Y, X, k in cons:
                # Y - X >= k ;  Y = Yatom + Yoff, X = Xatom + Xoff  =>  Yatom - Xatom >= k - Yoff + Xoff
                if Y.atom == big.atom and X.atom == small.atom:
                    base = k - Y.off + X.off
                    val = base + big.off - small.off
                    best = val if best is None else max(best, val)
        return best


# ---------------- discharge of panic sites ----------------
def discharge_asserts(f):
    """[(bb, kind, discharged, reason)] for every Assert terminator of f (kinds: bounds, overflow, overflow_neg, div_zero, rem_zero)"""
    ev = Eval(f)
    out = []
    for bb, b in enumerate(f.blocks):
        t = b["t"]
        if t[0] != "assert":
            continue
        kind = t[3]
        k = kind[0]
        line = t[5]
        if k == "bounds":
            ln, ix = kind[1]["o"], kind[2]["o"]
            vl, vi = ev.value(ln), ev.value(ix)
            d = ev.diff_lower_bound(vl, vi, bb)
            ok = d is not None and d >= 1
            out.append((bb, "bounds", ok, "len - index >= %s" % d, line))
        elif k == "overflow":
            opn = kind[1]
            a, b_ = kind[2], kind[3]
            r = ty_range(a["ty"])
            va, vb = ev.value(a["o"], at=bb), ev.value(b_["o"], at=bb)
            ok = False
            why = "%s %s %s in %s" % (va, opn, vb, a["ty"])
            if r and va is not None and vb is not None:
                if opn == "Add":
                    ok = va.hi + vb.hi <= r[1] and va.lo + vb.lo >= r[0]
                elif opn == "Sub":
                    ok = va.lo - vb.hi >= r[0] and va.hi - vb.lo <= r[1]
                    if not ok:
                        d = ev.diff_lower_bound(ev.value(a["o"]), ev.value(b_["o"]), bb)
                        if d is not None and d >= 0 and r[0] == 0:
                            ok = True
                            why += " (a-b >= %d)" % d
                elif opn == "Mul":
                    c = [va.lo * vb.lo, va.lo * vb.hi, va.hi * vb.lo, va.hi * vb.hi]
                    ok = min(c) >= r[0] and max(c) <= r[1]
                elif opn in ("Shl", "Shr"):
                    bits = {"u8": 8, "i8": 8, "u16": 16, "i16": 16, "u32": 32, "i32": 32, "u64": 64, "i64": 64, "usize": 64, "isize": 64, "u128": 128, "i128": 128}.get(a["ty"])
                    ok = bits is not None and vb.lo >= 0 and vb.hi < bits
            out.append((bb, "overflow:" + opn, ok, why, line))
        elif k in ("div_zero", "rem_zero"):
            v = ev.value(kind[1]["o"], at=bb)
            ok = v is not None and (v.lo > 0 or v.hi < 0)
            out.append((bb, k, ok, "divisor %s" % v, line))
        elif k == "overflow_neg":
            v = ev.value(kind[1]["o"], at=bb)
            r = ty_range(kind[1]["ty"])
            ok = v is not None and r is not None and v.lo > r[0]
            out.append((bb, k, ok, "operand %s" % v, line))
        else:
            out.append((bb, k, False, str(kind)[:60], line))
    return out


RANGE_INDEX = re.compile(r"slice::index::<impl (?:std|core)::ops::Index(?:Mut)?<(?:std|core)::ops::(Range|RangeTo|RangeFrom|RangeInclusive|RangeToInclusive)<usize>> for \[(\w+)\]>::index")


def discharge_range_index(f):
    """slice[a..b] sites (calls to the slice Index impls for ranges): discharged when a <= b <= len is known"""
    ev = Eval(f)
    out = []
    for c in f.calls:
        mm = RANGE_INDEX.search(c.full)
        if not mm:
            continue
        kind = mm.group(1)
        if len(c.args) < 2:
            continue
        base = ev.root_of_ref(c.args[0])
        lenv = AV(0, LEN_MAX, ("len", base), 0)
        rpl = operand_place(c.args[1])
        lo_op = hi_op = None
        if rpl is not None and not rpl[1]:
            ds = f.defs().get(rpl[0], [])
            if len(ds) == 1 and ds[0][0] == "stmt" and ds[0][3][0] == "agg" and ds[0][3][1] == "adt":
                ops = ds[0][3][4]
                if kind == "Range" and len(ops) == 2:
                    lo_op, hi_op = ops
                elif kind == "RangeTo" and len(ops) == 1:
                    hi_op = ops[0]
                elif kind == "RangeFrom" and len(ops) == 1:
                    lo_op = ops[0]
        ok = False
        why = "range operands not resolved"
        if kind == "Range" and lo_op is not None and hi_op is not None:
            vlo, vhi = ev.value(lo_op), ev.value(hi_op)
            d1 = ev.diff_lower_bound(lenv, vhi, c.bb)
            d2 = ev.diff_lower_bound(vhi, vlo, c.bb)
            ok = d1 is not None and d1 >= 0 and d2 is not None and d2 >= 0
            why = "len-end >= %s, end-start >= %s" % (d1, d2)
        elif kind == "RangeTo" and hi_op is not None:
            d1 = ev.diff_lower_bound(lenv, ev.value(hi_op), c.bb)
            ok = d1 is not None and d1 >= 0
            why = "len-end >= %s" % d1
        elif kind == "RangeFrom" and lo_op is not None:
            d1 = ev.diff_lower_bound(lenv, ev.value(lo_op), c.bb)
            ok = d1 is not None and d1 >= 0
            why = "len-start >= %s" % d1
        out.append((c.bb, "range:" + kind, ok, why, c.line))
    return out


def discharge_unwraps(f):
    """`<[u8] -> [u8; N]>::try_into().unwrap()` sites: discharged when the source is a range index with constant length N.
    Any other unwrap/expect on Result/Option in the function is reported undischarged."""
    from paths import source_call
    ev = Eval(f)
    out = []
    for c in f.calls:
        n = c.name
        if not (n.endswith("Result::<T, E>::unwrap") or n.endswith("Result::<T, E>::expect") or n.endswith("Option::<T>::unwrap") or n.endswith("Option::<T>::expect")):
            continue
        ok = False
        why = "unwrap of a value that may be Err/None"
        mm = re.search(r"Result::<\[u8; (\d+)\], std::array::TryFromSliceError>::(unwrap|expect)", c.full)
        if mm and c.args:
            N = int(mm.group(1))
            pl = operand_place(c.args[0])
            src = source_call(f, pl[0]) if pl and not pl[1] else None
            hops = 0
            while src is not None and hops < 4 and not RANGE_INDEX.search(src.full):
                p0 = operand_place(src.args[0]) if src.args else None
                src = source_call(f, p0[0]) if p0 and not p0[1] else None
                hops += 1
            if src is not None and len(src.args) > 1:
                rpl = operand_place(src.args[1])
                ds = f.defs().get(rpl[0], []) if rpl and not rpl[1] else []
                if len(ds) == 1 and ds[0][0] == "stmt" and ds[0][3][0] == "agg" and len(ds[0][3][4]) == 2:
                    lo, hi = ds[0][3][4]
                    d = ev.diff_lower_bound(ev.value(hi), ev.value(lo), c.bb)
                    d2 = ev.diff_lower_bound(ev.value(lo), ev.value(hi), c.bb)
                    if d is not None and d2 is not None and d == N and d2 == -N:
                        ok = True
                        why = "slice of constant length %d converted to [u8; %d]" % (N, N)
        out.append((c.bb, "unwrap", ok, why, c.line))
    return out
