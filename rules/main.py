#!/usr/bin/env python3
"""./check Cxx [--tier quick|thorough] [--repo DIR]   — decide one property's static clauses on the current tree."""
import sys, os, argparse, importlib, traceback, time
sys.path.insert(0, os.path.dirname(os.path.abspath(__file__)))
import model, core


def main():
    ap = argparse.ArgumentParser()
    ap.add_argument("prop")
    ap.add_argument("--tier", default=os.environ.get("VERIF_TIER", "quick"))
    ap.add_argument("--repo", default="/repo")
    a = ap.parse_args()
    pid = a.prop.upper()
    seed = int(os.environ.get("VERIF_SEED", "0") or 0)
    t0 = time.time()
    try:
        m = model.load_model(a.repo)
        mod = importlib.import_module("props.%s" % pid.lower())
        ctx = core.Ctx(pid, a.tier, m, getattr(mod, "LEVEL", "other"))
        ctx.repo = a.repo
        mod.run(ctx)
        if not ctx.obs:
            raise model.CheckError("no obligations produced")
        rc = core.finish(ctx, seed)
        sys.exit(rc)
    except model.CheckError as e:
        print("CHECK-ERROR property=%s: %s" % (pid, e))
        sys.exit(2)
    except SystemExit:
        raise
    except Exception:
        traceback.print_exc()
        print("CHECK-ERROR property=%s: internal error" % pid)
        sys.exit(2)


if __name__ == "__main__":
    main()
