#!/usr/bin/env python3
"""./check Cxx [--tier quick|thorough] [--repo DIR]   — decide one property's static clauses on the current tree."""
import sys, os, argparse, importlib, traceback, time
sys.path.insert(0, os.path.dirname(os.path.abspath(__file__)))
import model, core


THOROUGH_FEATURES = ["timing"]


def main():
    ap = argparse.ArgumentParser()
    ap.add_argument("prop")
    ap.add_argument("--tier", default=os.environ.get("VERIF_TIER", "quick"))
    ap.add_argument("--repo", default="/repo")
    a = ap.parse_args()
    pid = a.prop.upper()
    seed = int(os.environ.get("VERIF_SEED", "0") or 0)
    t0 = time.time()
    try:
        m = model.load_model(a.repo)
        mod = importlib.import_module("props.%s" % pid.lower())
        ctx = core.Ctx(pid, a.tier, m, getattr(mod, "LEVEL", "other"))
        ctx.repo = a.repo
        mod.run(ctx)
        if a.tier == "thorough":
            # thorough = the same rules decided over every build configuration of the library that compiles offline:
            # default features and `--features timing` (the `cli` feature only adds the binary's line editor).
            for feats in THOROUGH_FEATURES:
                m2 = model.load_model(a.repo, feats)
                ctx2 = core.Ctx(pid, a.tier, m2, ctx.level)
                ctx2.repo = a.repo
                mod.run(ctx2)
                have = {(o["rule"], o["key"]): o for o in ctx.obs}
                for o in ctx2.obs:
                    k = (o["rule"], o["key"])
                    if k not in have or (have[k]["holds"] and not o["holds"]):
                        o = dict(o)
                        o["what"] = "[features=%s] %s" % (feats, o["what"])
                        ctx.obs.append(o)
                for k, v in ctx2.stats.items():
                    ctx.stats["%s[%s]" % (k, feats)] = v
                ctx.floor_failures += ["[features=%s] %s" % (feats, x) for x in ctx2.floor_failures]
                ctx.rules |= ctx2.rules
                ctx.extra_evals += len(ctx2.obs)
                ctx.trusted.append("second configuration analysed: --features %s (%d function bodies)" % (feats, len(m2.fns)))
        if not ctx.obs:
            raise model.CheckError("no obligations produced")
        rc = core.finish(ctx, seed)
        sys.exit(rc)
    except model.CheckError as e:
        print("CHECK-ERROR property=%s: %s" % (pid, e))
        sys.exit(2)
    except SystemExit:
        raise
    except Exception:
        traceback.print_exc()
        print("CHECK-ERROR property=%s: internal error" % pid)
        sys.exit(2)


if __name__ == "__main__":
    main()
