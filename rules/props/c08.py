"""C08 Uncommitted changes are isolated from other handles — wiring and rollback clauses.

 I1 UNDO-TOTAL        undo_write_entry: for an entry whose table still exists (and, for update/delete entries, whose
                      before-image was recorded) every success path reaches a mutation of the table B-tree. An Ok path that
                      skips the mutation leaves a rolled-back write in the table for every handle to see.
 I2 ROLLBACK-UNDOES   ROLLBACK, ROLLBACK TO SAVEPOINT and abort-on-close hand the entries they drained from the transaction to
                      undo_write_entries on every success path, and the slice handed over is exactly what
                      take_write_entries / rollback_to_savepoint returned (no filtering in between).
 I3 UNDO-EVERY-ENTRY  undo_write_entries calls undo_write_entry for every element (no conditional skip inside the loop).
 V1 VISIBILITY-WIRED  the read path consults the MVCC visibility rule: some function reachable from Database::query /
                      execute reaches RecordHeader::is_visible_to / is_visible_with_clog.
 V2 CONFLICT-WIRED    UPDATE and DELETE consult the first-writer check (check_can_write / MvccTable::can_write /
                      check_write_conflict) before overwriting a row.
What is decided is the wiring, not behaviour under interleavings.
"""
from model import CheckError, operand_place
from paths import Assume, call_named, must_pass, describe_path, arg_origin, source_call, origin_fields
import common, dmlrules

T = "database::transaction::<impl database::database::Database>::"


def btree_mutation(c):
    return c.name.startswith("btree::tree::BTree::") and c.name.rsplit("::", 1)[-1] in ("delete", "insert", "update", "insert_or_replace", "upsert")


def run(ctx):
    m = ctx.m
    ctx.clause = ("Rollback removes every write of the transaction unconditionally (undo is total per entry, covers every entry, "
                  "and is reached from every rollback entry point); the read path is wired to the MVCC visibility rule and "
                  "UPDATE/DELETE to the first-writer check.")
    f = m.fn(T + "undo_write_entry")
    exists = call_named("::is_none", False, desc="the entry's table still exists", )
    def arg_some(fn, kind, payload):
        return kind == "arg" and payload == 3
    has_undo = Assume("the before-image was recorded (undo_data is Some)", arg_some, 1)
    def table_btree_mutation(c):
        # mutation of the table tree: keyed by the write entry's own key
        if not btree_mutation(c) or len(c.args) < 2:
            return False
        k, p_, _ = arg_origin(f, c, 1)
        return any(x.endswith("WriteEntry::key") for x in origin_fields(f, k, p_))
    ok, esc, info = must_pass(f, table_btree_mutation, [exists, has_undo])
    ctx.stat("I1.t_sites", info["t_sites"])
    ctx.stat("I1.assumed", len(info["assumed"]))
    ctx.ob("I1.UNDO-TOTAL", "undo_write_entry", ok and info["t_sites"] >= 2 and len(info["assumed"]) >= 2,
           "every success path mutates the table B-tree (%d mutation sites)" % info["t_sites"] if ok else
           "an Ok path skips the table mutation: %s — the rolled-back write stays in the table" % (describe_path(f, esc[0]) if esc else "no mutation site"),
           f.loc())
    # I2
    n = 0
    for name in ("execute_rollback", "abort_active_transaction"):
        g = m.fn(T + name)
        calls = [c for c in g.calls if c.name == T + "undo_write_entries"]
        drains = [c for c in g.calls if c.name.endswith("ActiveTransaction::take_write_entries") or c.name.endswith("ActiveTransaction::rollback_to_savepoint")]
        for d in drains:
            n += 1
            # every success path from the drain reaches undo_write_entries
            from paths import success_escapes
            tb = [c.bb for c in calls]
            e = success_escapes(g, [d.target], tb, ()) if d.target is not None else [[d.bb]]
            okd = not e and bool(calls)
            ctx.ob("I2.ROLLBACK-UNDOES", "%s:%s" % (name, d.name.rsplit("::", 1)[-1]), okd,
                   "entries drained at L%d always reach undo_write_entries" % d.line if okd else
                   "entries drained from the transaction are dropped without being undone on %s" % (describe_path(g, e[0]) if e else "?"), d.loc())
        for c in calls:
            # arg 1 (entries) originates in a drain call's tuple result
            pl = operand_place(c.args[1]) if len(c.args) > 1 else None
            src = source_call(g, pl[0]) if pl and not pl[1] else None
            hops = 0
            while src is not None and hops < 4 and any(src.name.endswith(t) for t in ("ops::Deref>::deref", "::as_slice", "::as_ref")):
                q = operand_place(src.args[0])
                src = source_call(g, q[0]) if q and not q[1] else None
                hops += 1
            okc = src is not None and src in drains
            ctx.ob("I2.UNDO-ARG-IS-DRAIN", "%s@%d" % (name, calls.index(c)), okc, "entries passed unfiltered from %s" % src.name.rsplit("::", 1)[-1] if okc else
                   "the entries passed to undo_write_entries are not the drained write set (origin: %s)" % (src.name if src else "?"), c.loc())
    ctx.floor("I2.drain_sites", n, 3)
    # I3
    g = m.fn(T + "undo_write_entries")
    uc = [c for c in g.calls if c.name == T + "undo_write_entry"]
    loops = g.loops()
    ok3 = False
    why = "no loop calls undo_write_entry"
    for hdr, body in loops.items() if isinstance(loops, dict) else loops:
        if not uc or uc[0].bb not in body:
            continue
        # from the `next() -> Some` side, every path to the back edge passes the call
        from paths import success_escapes
        nxt = [c for c in g.calls if c.bb in body and c.name.endswith("Iterator>::next")]
        if not nxt:
            continue
        sw = nxt[0].target
        t = g.blocks[sw]["t"]
        somes = [x[1] for x in t[3] if x[0] == 1] if t[0] == "switch" else []
        if not somes:
            continue
        # walk inside the loop body without passing the call; reaching the header again = skip
        seen, st, skipped = set(), [somes[0]], False
        while st:
            b = st.pop()
            if b in seen or b == uc[0].bb:
                continue
            seen.add(b)
            for s in g.succ(b, unwind=False):
                if s == hdr:
                    skipped = True
                elif s in body:
                    st.append(s)
        ok3 = not skipped
        why = "an iteration can reach the next one without undoing its entry"
    ctx.ob("I3.UNDO-EVERY-ENTRY", "undo_write_entries", ok3, "each iteration undoes its entry" if ok3 else why, g.loc())
    dmlrules.undo_newest_first(ctx, "I3.NEWEST-FIRST")
    # V1 / V2 wiring
    vis = [k for k in m.fns if k.endswith("RecordHeader>::is_visible_to") or k.endswith("RecordHeader>::is_visible_with_clog") or k.endswith("RecordHeader::is_visible_to")]
    if not vis:
        raise CheckError("visibility rule functions not found")
    users = set()
    for v in vis:
        users |= m.callers_closure(v)
    roots = [k for k in m.fns if common.is_sql_entry(k)]
    ctx.floor("V1.sql_entries", len(roots), 4)
    wired = sorted(r for r in roots if r in users)
    ctx.ob("V1.VISIBILITY-WIRED", "query path", bool(wired), "visibility rule reached from %s" % wired if wired else
           "no SQL entry point reaches RecordHeader::is_visible_to / is_visible_with_clog: scans filter on the delete bit only, so a "
           "second handle reads rows written by a transaction that has not committed, and a transaction's reads are not a snapshot", m.fns[vis[0]].loc())
    chk = [k for k in m.fns if k.endswith("mvcc_helpers::check_can_write") or k.endswith("MvccTable::can_write") or k.endswith("check_write_conflict")]
    if not chk:
        raise CheckError("write-conflict check functions not found")
    cu = set()
    for v in chk:
        cu |= m.callers_closure(v)
    # update_cached is not listed: inside a transaction the cached-plan UPDATE currently fails on MVCC-wrapped rows (C13 finding),
    # so no lost update can be shown through it.
    for e in ("update", "update_from", "delete"):
        fid = dmlrules.ENTRIES[e]
        okv = fid in cu or m.fn(fid).key in cu
        ctx.ob("V2.CONFLICT-WIRED", e, okv, "first-writer check reached" if okv else
               "%s never consults the first-writer check: two transactions that modify the same row both commit (lost update)" % e, m.fn(fid).loc())
    commit_ts_decides_visibility(ctx)


def commit_ts_decides_visibility(ctx):
    """V3 COMMIT-TS-VISIBILITY: a version written by a transaction that is still marked (lock bit) becomes visible to a reader
    according to the writer's *commit* timestamp from the commit log, not its start timestamp: a writer that began before the reader's
    snapshot but committed after it must stay invisible.  In RecordHeader::is_visible_with_clog the value compared with read_ts
    depends on the payload the commit-log callback returned."""
    import dmlrules
    m = ctx.m
    fs = [f for f in m.fns.values() if f.kind != "closure" and f.id.endswith("RecordHeader>::is_visible_with_clog")]
    if len(fs) != 1:
        raise CheckError("is_visible_with_clog: %d candidates" % len(fs))
    f = fs[0]
    cb = [c for c in f.calls if any(x in (c.name + " " + c.full) for x in ("ops::Fn<", "ops::FnOnce<", "ops::FnMut<", "ops::Fn::call", "ops::FnOnce::call_once", "ops::FnMut::call_mut"))
          and c.dest is not None]
    if not cb:
        raise CheckError("is_visible_with_clog: commit-log callback call not found")
    cbd = {c.dest[0] for c in cb}
    ok = False
    for b in f.blocks:
        for s in b["s"]:
            if s[0] == "=" and s[2][0] == "bin" and s[2][1] in ("Gt", "Ge", "Lt", "Le"):
                sides = [operand_place(s[2][2]), operand_place(s[2][3])]
                if any(q is None for q in sides):
                    continue
                roots = [dmlrules._deps(f, q[0]) for q in sides]
                with_read_ts = [i for i, r in enumerate(roots) if 2 in r]
                for i in with_read_ts:
                    other = roots[1 - i]
                    if other & cbd:
                        ok = True
    ctx.ob("V3.COMMIT-TS-VISIBILITY", "is_visible_with_clog", ok, "read_ts is compared with a timestamp that depends on the commit log's answer" if ok else
           "is_visible_with_clog never compares read_ts with the commit timestamp the commit log returns (the callback's result is only tested "
           "for presence): a writer that started before the reader's BEGIN and committed after it becomes visible in the middle of the reader's "
           "transaction", f.loc())
