"""C01 Acknowledged writes survive a crash — structural durability clauses (DESIGN §4 C01).

Decides (not the behaviour, only these necessary conditions), under the property's precondition
WAL on + synchronous=FULL (encoded as path assumptions):
 R1 SYNC-AFTER-APPEND  no function outside storage::wal can return Ok with log bytes appended
                       (BufWriter::write_all in the WAL module) and no File::sync_data/sync_all after it.
 R2 AUTOCOMMIT-FLUSH   every table-B-tree mutation through the dirty-tracking wrapper is followed, on every
                       success path of the same function, by a must-log call (autocommit branch).
 R3 COMMIT-LOGS        the COMMIT entry must-pass a log append+sync when dirty pages exist.
 R4 ERR-DROP           no Result is discarded on the commit/flush/checkpoint/close slice (frozen exceptions).
 R5 DDL-SYNC           every DDL entry must-pass catalog save, which must-pass File::sync_all.
 R9 MUTATION-LOGGED   with WAL enabled, every DML B-tree mutation goes through the dirty-tracking wrapper (shared with C38 L2).
 R6 TRUNCATE-AFTER-SYNC every WAL truncate / segment removal is preceded by a sync of the replayed storages.
"""
from paths import (source_call, from_field, call_named, atomic_load_of, Assume, must_pass, order_after, must_reach_closure,
                   success_escapes, assumed_cuts, describe_path, t_blocks_of, arg_origin, origin_fields)
import common


# Rule instances that hit on the pinned tree but could not be demonstrated against the real code (DESIGN §6):
R2_TOLERATED = {
    "execute_update_param_only": "not reachable today: the cached-plan UPDATE fast path fails in SimpleDecoder::decode "
                                 "('unknown record format') before it mutates anything — see known finding C13; "
                                 "re-armed automatically if the function is renamed or its caller changes",
}
R6_TOLERATED = {
    "SharedDatabase as std::ops::Drop>::drop:remove_closed_segments":
        "fault-only candidate: segments are removed although the replay Result was discarded; needs a failing replay "
        "(I/O fault or foreign file in the schema dir) to lose data — not demonstrated",
}


def run(ctx):
    m = ctx.m
    ctx.clause = ("Structural durability clauses for WAL+synchronous=FULL: sync after last log append on every success "
                  "path (interprocedural), autocommit flush after wrapped B-tree mutation, COMMIT must log, no dropped "
                  "errors on the durability slice, DDL must save+sync catalog, WAL truncated only after storages synced. "
                  "Decides these clauses for all paths; does not decide that logged bytes are the right bytes.")
    ctx.assumptions = ["synchronous=FULL: SyncMode::should_sync()==true, sync_mode==Full",
                       "WAL enabled: wal_enabled.load()==true", "something to log: is_empty()==false on frame/page lists",
                       "POSIX: only File::sync_data/sync_all/MmapMut::flush make bytes durable"]
    A = common.durability_assumptions()

    # ---------------- R1: sync after append (dirty fixpoint) ----------------
    is_sync = common.is_file_sync
    wal_fns = [f for f in m.fns.values() if f.id.startswith("storage::wal::") or "storage::wal::" in f.id.split(" as ")[0]]
    def is_append(c):
        return c.fn.id.startswith("storage::wal::") and c.name.endswith("io::Write>::write_all") and "BufWriter" in c.full
    appenders = [f for f in wal_fns if any(is_append(c) for c in f.calls)]
    ctx.floor("R1.append_sites", sum(1 for f in appenders for c in f.calls if is_append(c)), 2)
    M = must_reach_closure(m, is_sync, A)
    ctx.stat("R1.must_sync_functions", len(M))
    if not any(k.endswith("WalSegment::sync_to_disk") for k in M):
        # anchor by shape, not by name: some function in the wal module must unconditionally reach sync_data
        if not any(k.startswith("storage::wal::") for k in M):
            ctx.ob("R1.SYNC-AFTER-APPEND", "storage::wal:no-unconditional-sync-function", False,
                   "no function in storage::wal reaches File::sync_data on all success paths", "src/storage/wal.rs")
    dirty = {}
    changed = True
    callers = m.callers()
    work = set(f.key for f in appenders)
    rounds = 0
    while work and rounds < 40:
        rounds += 1
        nxt = set()
        for k in sorted(work):
            f = m.fns[k]
            wpred = lambda c: is_append(c) or c.name in dirty
            tpred = lambda c: is_sync(c) or c.name in M
            res, info = order_after(f, wpred, tpred, A)
            bad = [(c, esc) for c, ok, esc in res if not ok]
            if bad and k not in dirty:
                dirty[k] = bad
                for p in callers.get(k, ()):
                    nxt.add(p)
            elif not bad and res:
                ctx.ob("R1.SYNC-AFTER-APPEND", f.id, True,
                       "%d append site(s) all followed by sync on every success path" % len(res), f.loc())
        work = nxt
    ctx.stat("R1.dirty_functions", sorted(dirty))
    for k, bad in sorted(dirty.items()):
        f = m.fns[k]
        in_wal = f.id.startswith("storage::wal::")
        ps = callers.get(k, set())
        if in_wal and ps:
            # allowed: obligation moves to callers (each was examined above)
            continue
        if in_wal and not ps and f.vis == "pub" and not common.is_database_api(f):
            # low-level pub WAL primitive without in-crate callers: not an acknowledgement point
            ctx.note("dirty WAL primitive without in-crate callers: %s" % f.id)
            continue
        if not ps and not common.is_database_api(f) and f.vis != "pub":
            ctx.note("dirty but unreachable (no callers, not pub): %s" % f.id)
            continue
        c, esc = bad[0]
        ctx.ob("R1.SYNC-AFTER-APPEND", f.id, False,
               "returns Ok after log append via %s without reaching File::sync_data (%d escaping path(s))" % (c.name, len(esc)),
               c.loc(), describe_path(f, esc[0]))

    # ---------------- R2: autocommit flush after wrapped mutation ----------------
    is_wrapped_mut = common.is_wrapped_btree_mutation
    A2 = A + common.autocommit_assumptions()
    is_append_any = lambda c: c.name.endswith("io::Write>::write_all") and "BufWriter" in c.full and c.fn.id.startswith("storage::wal::")
    # functions that must log+sync under the autocommit assumptions
    L = must_reach_closure(m, lambda c: is_sync(c), A2)
    may_append = set(m.callers_closure([f.key for f in appenders]))
    LOG = L & may_append
    ctx.stat("R2.must_log_functions", len(LOG))
    holders = [f for f in m.fns.values() if any(is_wrapped_mut(c) for c in f.calls)]
    nsite = 0
    r2_dirty = {}
    r2_ok = {}
    for f in sorted(holders, key=lambda f: f.id):
        root = m.fns.get(f.parent, f) if f.kind == "closure" else f
        res, info = order_after(f, is_wrapped_mut, lambda c: c.name in LOG, A2)
        if f.kind == "closure":
            # a closure cannot flush itself: the obligation is on the parent after the closure's call/definition
            res2, _ = order_after(root, lambda c: common.closure_arg_is(m, root, c, f), lambda c: c.name in LOG, A2)
            res = res2 if res2 else res
        nsite += len(res)
        bad = [(c, esc) for c, ok, esc in res if not ok]
        if bad:
            r2_dirty.setdefault(root.key, []).extend(bad)
        elif res:
            r2_ok[root.key] = r2_ok.get(root.key, 0) + len(res)
    for k, n_ in sorted(r2_ok.items()):
        if k not in r2_dirty:
            ctx.ob("R2.AUTOCOMMIT-FLUSH", m.fns[k].id, True, "%d wrapped mutation site(s) all followed by a must-log call" % n_, m.fns[k].loc())
    for k, bad in sorted(r2_dirty.items()):
        f = m.fns[k]
        c, esc = bad[0]
        ps = [p for p in callers.get(k, ()) if p != k]
        excused = bool(ps)
        why = []
        for p in ps:
            pf = m.fns[p]
            res, _ = order_after(pf, lambda cc: cc.name == k, lambda cc: cc.name in LOG, A2)
            if not res or any(not okk for _, okk, _ in res):
                excused = False
                why.append(pf.id)
        tol = [r for k_, r in R2_TOLERATED.items() if f.id.endswith(k_)]
        if excused:
            ctx.ob("R2.AUTOCOMMIT-FLUSH", f.id, True, "helper: every caller (%d) flushes after calling it" % len(ps), f.loc())
        elif tol:
            ctx.ob("R2.AUTOCOMMIT-FLUSH", f.id, True, "tolerated (%s)" % tol[0], f.loc())
        else:
            ctx.ob("R2.AUTOCOMMIT-FLUSH", f.id, False,
                   "wrapped B-tree mutation %s can reach an Ok return with no WAL flush in this function%s (autocommit, WAL on): "
                   "the acknowledged statement is in no log" % (common.short(c.full, 60), (" nor in caller(s) " + ", ".join(why)) if why else ""),
                   c.loc(), describe_path(c.fn, esc[0]))
    ctx.floor("R2.wrapped_mutation_sites", nsite, 10)

    # ---------------- R3: COMMIT must log ----------------
    commit = common.stmt_handler(m, "execute_commit")
    handoff = lambda c: c.name.endswith("GroupCommitQueue::submit_and_wait")
    # group-commit hand-off counts as logging only through the queue protocol (C37 decides the protocol)
    M3 = must_reach_closure(m, lambda c: is_sync(c) or handoff(c), A)
    ok, esc, info = must_pass(commit, lambda c: c.name in M3, A)
    ctx.ob("R3.COMMIT-LOGS", commit.id, ok,
           "COMMIT with dirty pages must pass a WAL sync (or the group-commit hand-off)" if ok else
           "COMMIT can return Ok without logging dirty pages", commit.loc(), describe_path(commit, esc[0]) if esc else None)
    # R7: the table list COMMIT logs is the dirty tracker's whole-set enumeration (pages are dirtied by paths that
    # register no write entry: TOAST chunks, batch loads, cached-plan inserts), never a transaction-local list
    n7 = 0
    for c in commit.calls:
        if c.name not in M3 or c.name not in m.fns:
            continue
        for i, a in enumerate(c.args[1:], 1):
            pl = common.operand_place(a)
            if pl is None or pl[1]:
                continue
            ty = commit.locals[pl[0]]
            if "[u32]" not in ty and "Vec<u32>" not in ty:
                continue
            src = source_call(commit, pl[0])
            hops = 0
            while src is not None and hops < 4 and (src.name.endswith("::deref") or src.name.endswith("::as_slice") or src.name.endswith("::as_ref") or src.name.endswith("::borrow")):
                p0 = common.operand_place(src.args[0])
                src = source_call(commit, p0[0]) if p0 and not p0[1] else None
                hops += 1
            n7 += 1
            okk = (src is not None and src.name.startswith("database::dirty_tracker::ShardedDirtyTracker::")
                   and src.name in m.fns and m.fns[src.name].nargs == 1)
            ctx.ob("R7.COMMIT-ENUMERATES-TRACKER", "%s:%s" % (commit.id, c.name.rsplit("::", 1)[-1]), okk,
                   "table list passed to the logging call comes from a whole-tracker enumeration (%s)" % (src.name if src else "?") if okk else
                   "COMMIT logs a table list that does not originate from a whole-set enumeration of the dirty tracker (origin: %s): "
                   "pages dirtied by paths that register no write entry are never logged" % (src.name if src else "not a call"), c.loc())
    ctx.floor("R7.logged_list_args", n7, 2)
    # inside the hand-off branch: a taken batch must be flushed (the batch is non-empty by the queue's contract)
    LOG3 = must_reach_closure(m, is_sync, A, nonempty=lambda f: any(handoff(c) or c.name.endswith("write_payload_to_wal") for c in f.calls) or True) & may_append
    ntake = 0
    for f in sorted(m.fns.values(), key=lambda f: f.id):
        takes = [c for c in f.calls if c.name.endswith("GroupCommitQueue::take_pending")]
        if not takes or f.id.startswith("database::group_commit::"):
            continue
        A_some = A + [call_named("GroupCommitQueue::take_pending", 1, desc="take_pending() is Some")]
        res, _ = order_after(f, lambda c: c.name.endswith("GroupCommitQueue::take_pending"), lambda c: c.name in LOG3, A_some)
        for c, okk, esc in res:
            ntake += 1
            ctx.ob("R3.BATCH-FLUSHED", f.id, okk, "a batch taken from the group-commit queue is written+synced before Ok",
                   c.loc(), describe_path(f, esc[0]) if esc else None)
    ctx.floor("R3.take_pending_sites", ntake, 1)

    # ---------------- R4: ERR-DROP on the durability slice ----------------
    roots = [f.key for f in m.fns.values() if common.is_durability_root(f)]
    ctx.floor("R4.roots", len(roots), 6)
    sinks = common.is_durability_sink
    slice_fns = common.slice_between(m, roots, sinks, stop=common.is_sql_entry)
    ctx.stat("R4.slice_functions", len(slice_fns))
    n = common.err_drop(ctx, "R4.ERR-DROP", slice_fns, sinks, common.C01_ERRDROP_EXCEPTIONS)
    ctx.stat("R4.discard_sites_examined", n)

    # ---------------- R5: DDL must save + sync the catalog ----------------
    save = [f for f in m.fns.values() if f.id.endswith("CatalogPersistence::save")]
    if not save:
        raise common.CheckError("anchor CatalogPersistence::save missing")
    okk, esc, _ = must_pass(save[0], lambda c: c.name.endswith("fs::File::sync_all") or c.name.endswith("fs::File::sync_data"))
    ctx.ob("R5.CATALOG-SYNC", save[0].id, okk, "catalog save reaches File::sync_all on every success path", save[0].loc(),
           describe_path(save[0], esc[0]) if esc else None)
    A5 = [from_field("SharedDatabase::catalog", 1, desc="catalog is loaded (Some)")]
    SAVE = must_reach_closure(m, lambda c: c.name.endswith("CatalogPersistence::save"), A5)
    ddl = common.ddl_handlers(m)
    ctx.floor("R5.ddl_handlers", len(ddl), 7)
    nmut = 0
    for name, f in sorted(ddl.items()):
        res, _ = order_after(f, lambda c: common.is_catalog_mutation(c), lambda c: c.name in SAVE or c.name.endswith("CatalogPersistence::save"), A5)
        nmut += len(res)
        bad = [(c, esc) for c, okk, esc in res if not okk]
        if bad:
            c, esc = bad[0]
            ctx.ob("R5.DDL-SAVES-CATALOG", "%s:%s" % (f.id, c.name.rsplit("::", 1)[-1]), False,
                   "catalog mutation %s can reach an Ok return without a catalog save" % c.name, c.loc(), describe_path(f, esc[0]))
        elif res:
            ctx.ob("R5.DDL-SAVES-CATALOG", f.id, True, "%d catalog mutation site(s) all followed by save_catalog" % len(res), f.loc())
    ctx.floor("R5.catalog_mutation_sites", nmut, 6)

    # ---------------- R6: truncate only after the storages were synced ----------------
    common.truncate_after_sync(ctx, "R6.TRUNCATE-AFTER-SYNC", R6_TOLERATED)

    # ---------------- R8: every page drained from the dirty tracker is logged ----------------
    common.drained_logged(ctx, "R8.DRAINED-LOGGED")

    # ---------------- R9: with WAL enabled no DML B-tree mutation bypasses the dirty-tracking wrapper ----------------
    # (a page written through a raw MmapStorage is never dirty-tracked, hence never logged: the acknowledged change is not in the log)
    common.unwrapped_mutations(ctx, "R9.MUTATION-LOGGED")

    # ---------------- R10: appended frames land where replay reads them (C03 T1/T2, shared) ----------------
    from props import c03
    c03.append_position(ctx, "R10.")
    common.checkpoint_after_flush(ctx, "R11.CHECKPOINT-AFTER-FLUSH")
