"""C37 Group commit completes every commit exactly once — protocol-shape clauses.

 P1 BATCH-RESOLVED   in every function that takes a batch (GroupCommitQueue::take_pending == Some) every exit — Ok *and*
                     Err — passes exactly one of complete_batch | fail_batch (no path passes both, none passes neither).
 P2 RESOLVERS-AGREE  complete_batch and fail_batch are siblings: each marks every commit (call in a loop over the batch),
                     clears QueueState.flush_in_progress, and calls Condvar::notify_all after that write on every path.
 P3 WAITER-SHAPE     Condvar::wait_for sits in a loop, and on every path from taking the state lock to the wait the
                     completion predicate is re-read (no check-then-sleep gap).
 P4 FAIL-ORDER       mark_failed publishes the error before it publishes `completed` (else a waiter sees success).
 P5 FLAG-WRITES      flush_in_progress is set to true only by the leader-election sites (wait_for_completion, take_pending)
                     and every true-write in wait_for_completion returns Ok to a caller that P1 covers.
Interleavings themselves (exactly-once over all schedules, no lost wake-up) are NOT decided.
"""
from paths import success_escapes, order_after, must_pass, describe_path, call_named, assumed_cuts
from model import CheckError, place_fields, operand_place
import common


def field_writes(f, suffix):
    """(bb, const_value|None) for assignments to a place ending in field `suffix`"""
    out = []
    for bb, b in enumerate(f.blocks):
        for s in b["s"]:
            if s[0] == "=" and s[1][1]:
                fl = place_fields(s[1])
                if fl and fl[-1].endswith(suffix):
                    v = None
                    if s[2][0] == "use" and s[2][1][0] == "k":
                        v = s[2][1][4]
                    out.append((bb, v))
    return out


def run(ctx):
    m = ctx.m
    ctx.clause = ("Protocol shape of the group-commit queue: a taken batch is resolved by exactly one of complete/fail on "
                  "every exit including errors; the two resolvers agree on mark-all / clear-flag / notify-after; the waiter "
                  "re-reads its predicate under the lock inside a loop; mark_failed publishes error before completed.")
    Q = "database::group_commit::GroupCommitQueue::"
    take = lambda c: c.name == Q + "take_pending" or c.name == Q + "force_flush"
    comp = lambda c: c.name == Q + "complete_batch"
    fail = lambda c: c.name == Q + "fail_batch"
    for n in ("take_pending", "complete_batch", "fail_batch", "wait_for_completion"):
        m.fn(Q + n)

    # ---- P1 ----
    nsite = 0
    for f in sorted(m.fns.values(), key=lambda f: f.id):
        if f.id.startswith("database::group_commit::"):
            continue
        ts = [c for c in f.calls if take(c)]
        if not ts:
            continue
        A = [call_named([Q + "take_pending", Q + "force_flush"], 1, desc="take_pending() returned Some(batch)")]
        cuts, _ = assumed_cuts(f, A)
        for c in ts:
            nsite += 1
            tb = [x.bb for x in f.calls if comp(x) or fail(x)]
            esc = success_escapes(f, [c.target], tb, cuts, returns_result=False)
            ctx.ob("P1.BATCH-RESOLVED", f.id, not esc,
                   "every exit after taking a batch passes complete_batch or fail_batch" if not esc else
                   "an exit (Ok or Err) is reachable after take_pending()==Some without complete_batch/fail_batch: followers "
                   "are never woken and flush_in_progress stays set", c.loc(), describe_path(f, esc[0]) if esc else None)
            # exactly one: no path from one resolver to the other
            both = False
            for x in f.calls:
                if comp(x) or fail(x):
                    r = f.reachable([x.target] if x.target is not None else [])
                    for y in f.calls:
                        if (comp(y) or fail(y)) and y.bb in r and y.bb != x.bb:
                            both = True
            ctx.ob("P1.RESOLVED-ONCE", f.id, not both, "no path resolves the same batch twice" if not both else
                   "a path passes two of complete_batch/fail_batch", c.loc())
    ctx.floor("P1.take_sites", nsite, 1)

    # ---- P2 ----
    for name, marker in (("complete_batch", "PendingCommit::mark_completed"), ("fail_batch", "PendingCommit::mark_failed")):
        f = m.fn(Q + name)
        marks = [c for c in f.calls if c.name.endswith(marker)]
        in_loop = any(any(c.bb in body for _, body in f.loops()) for c in marks)
        ctx.ob("P2.MARKS-ALL", f.id, bool(marks) and in_loop, "marks every commit of the batch (call inside the loop over the batch)"
               if marks and in_loop else "does not call %s for every commit of the batch" % marker, f.loc())
        # the tail (clear flag, notify) may live in a private helper of the queue: follow it when this function itself does not
        # write the flag and every path passes the helper call
        host = f
        if not field_writes(f, "QueueState::flush_in_progress"):
            helpers = [m.fns[c.name] for c in f.calls if c.name in m.fns and c.name.startswith(Q) and field_writes(m.fns[c.name], "QueueState::flush_in_progress")]
            if len({h.id for h in helpers}) == 1:
                h = helpers[0]
                esc_h = success_escapes(f, [0], [c.bb for c in f.calls if c.name == h.id], returns_result=False)
                if not esc_h:
                    host = h
        f_outer, f = f, host
        ws = [w for w in field_writes(f, "QueueState::flush_in_progress")]
        clears = [bb for bb, v in ws if v == 0]
        ctx.ob("P2.CLEARS-FLAG", f_outer.id, bool(clears) and all(v == 0 for _, v in ws),
               "clears flush_in_progress" if clears else "does not clear flush_in_progress (stuck flush flag)", f.loc())
        nots = [c for c in f.calls if c.name.endswith("Condvar::notify_all")]
        ok = bool(nots) and bool(clears)
        if ok:
            # every path entry -> return passes notify_all, and the flag write dominates it
            esc = success_escapes(f, [0], [c.bb for c in nots], returns_result=False)
            ok = not esc and all(any(f.dominates(w, c.bb) for w in clears) for c in nots)
        ctx.ob("P2.NOTIFY-AFTER-CLEAR", f_outer.id, ok, "notify_all on every path, after the flag is cleared" if ok else
               "waiters are not (always) notified after the flag is cleared%s" % ("" if f is f_outer else " (in helper %s)" % f.id.rsplit("::", 1)[-1]), f.loc())
        # the guard protecting the flag write is released before notify (no wake-into-held-lock is not required);
        # but the write must be under the state lock: its base derives from Mutex::lock on `state`
        locks = [c for c in f.calls if c.name.endswith("Mutex::<R, T>::lock")]
        under = bool(locks) and all(any(f.dominates(l.bb, w) for l in locks) for w in clears)
        if not under and f is not f_outer:
            # the caller may hold the lock and hand the guarded state to the helper
            ol = [c for c in f_outer.calls if c.name.endswith("Mutex::<R, T>::lock")]
            hc = [c for c in f_outer.calls if c.name == f.id]
            under = bool(ol) and bool(hc) and all(any(f_outer.dominates(l.bb, c.bb) for l in ol) for c in hc) and bool(clears)
        ctx.ob("P2.WRITE-UNDER-LOCK", f_outer.id, under, "flag write dominated by state.lock()" if under else
               "flush_in_progress is written without the state lock", f.loc())
        f = f_outer

    # ---- P3 ----
    w = m.fn(Q + "wait_for_completion")
    waits = [c for c in w.calls if c.name.endswith("Condvar::wait_for") or c.name.endswith("Condvar::wait") or c.name.endswith("Condvar::wait_until")]
    ctx.floor("P3.wait_sites", len(waits), 1)
    for c in waits:
        inloop = any(c.bb in body for _, body in w.loops())
        ctx.ob("P3.WAIT-IN-LOOP", w.id, inloop, "condvar wait is inside a re-check loop" if inloop else "condvar wait outside any loop (spurious/lost wake-up)", c.loc())
    res, _ = order_after(w, lambda c: c.name.endswith("Mutex::<R, T>::lock"),
                         lambda c: c.name.endswith("PendingCommit::is_completed"), [])
    # ORDER here is "lock -> (is_completed) -> wait": paths from lock that reach wait without is_completed
    lock_calls = [c for c in w.calls if c.name.endswith("Mutex::<R, T>::lock")]
    ok = True
    for l in lock_calls:
        checks = [x.bb for x in w.calls if x.name.endswith("PendingCommit::is_completed")]
        r = w.reachable([l.target], blocked=checks)
        if any(c.bb in r for c in waits):
            ok = False
    ctx.ob("P3.RECHECK-UNDER-LOCK", w.id, ok and bool(lock_calls),
           "predicate re-read between taking the lock and waiting" if ok else
           "a path goes from state.lock() to the condvar wait without re-reading is_completed (lost wake-up window)", w.loc())
    # error reporting: after the loop the error slot is consulted
    te = [c for c in w.calls if c.name.endswith("PendingCommit::take_error")]
    okk, esc, _ = must_pass(w, lambda c: c.name.endswith("PendingCommit::take_error") , [])
    # allowed Ok exits without take_error: the leader-election return (flag set true)
    elect = [bb for bb, v in field_writes(w, "QueueState::flush_in_progress") if v == 1]
    esc2 = success_escapes(w, [0], [c.bb for c in te] + elect)
    ctx.ob("P3.ERROR-CONSULTED", w.id, not esc2, "a waiter returns Ok only as elected leader or after consulting the error slot"
           if not esc2 else "a waiter can return Ok without consulting the batch error", w.loc(), describe_path(w, esc2[0]) if esc2 else None)

    # ---- P4 ----
    mf = m.fn("database::group_commit::PendingCommit::mark_failed")
    stores = [c for c in mf.calls if c.name.endswith("::store") and "Atomic" in c.name]
    errw = [c for c in mf.calls if c.name.endswith("Mutex::<R, T>::lock")]
    ok = bool(stores) and bool(errw) and all(any(mf.dominates(e.bb, s.bb) for e in errw) for s in stores)
    ctx.ob("P4.FAIL-ORDER", mf.id, ok, "error slot written before completed=true" if ok else
           "completed is published before (or without) the error: a waiter may report success for a failed commit", mf.loc())

    # ---- P5 ----
    setters = {}
    for f in m.fns.values():
        for bb, v in field_writes(f, "QueueState::flush_in_progress"):
            if v != 0:
                setters.setdefault(f.id, []).append(bb)
    allowed = {Q + "wait_for_completion", Q + "take_pending"}
    for fid in sorted(setters):
        ctx.ob("P5.FLAG-SETTERS", fid, fid in allowed, "flag set by a leader-election site" if fid in allowed else
               "flush_in_progress set outside the election sites", m.fns[fid].loc() if fid in m.fns else "")
    ctx.floor("P5.setters", len(setters), 2)
