"""C11 Every stored value reads back unchanged — structural clauses on the TOAST read path and the record column dispatch.

 D1 NO-TYPE-SNIFF      the OwnedValue variant built for a detoasted value is not chosen by inspecting the bytes
                       (String::from_utf8 succeeding): a BLOB whose bytes are valid UTF-8 must not come back as TEXT.
 D2 PER-VALUE-DETOAST  in detoast_rows the inner iteration runs over the values of the current row (its source is defined
                       inside the row loop), not over a column list computed from some other row: every value of every row
                       is examined for a TOAST pointer.
 D3 DETOAST-ON-READ    every query path that can return table rows with large values reaches detoast_rows (REACH).
 D4 COLUMN-DISPATCH    OwnedValue::from_record_column has a reader arm for every DataType variant that OwnedValue's record
                       builder has a writer arm for (no type silently falls into the default arm).
 D5 NUMERIC-SETTER     RecordBuilder::set_int_auto (the writer used for integer values) selects, for every numeric column type
                       (INT2/4/8, FLOAT4/8), a setter whose element type is the type the column's reader decodes: an integer
                       stored with the 8-byte integer setter into a FLOAT column is read back as the float with those bits.
NaN/infinity, multi-megabyte values, literal parsing and equality of values are NOT decided.
"""
from model import CheckError, operand_place
from paths import source_call, switch_cond_origin
import codec, common


def run(ctx):
    m = ctx.m
    ctx.clause = ("TOAST read path: no byte sniffing for the result type, per-value detoast, detoast reachable from the query paths; "
                  "record column dispatch covers every data type the builder writes.")
    cands = [f for f in m.fns.values() if f.id.endswith("Database>::detoast_rows") and f.kind != "closure"]
    if len(cands) != 1:
        raise CheckError("detoast_rows anchor: %d" % len(cands))
    f = cands[0]
    # D1
    sniff = [c for c in f.calls if c.name.endswith("String::from_utf8") or c.name.endswith("str::from_utf8")]
    mk = [(bb, s) for bb, b in enumerate(f.blocks) for s in b["s"] if s[0] == "=" and s[2][0] == "agg" and s[2][2] == "types::owned_value::OwnedValue" and s[2][3] in ("Text", "Blob")]
    dep = False
    for c in sniff:
        r = f.reachable([c.target] if c.target is not None else [])
        variants = {s[2][3] for bb, s in mk if bb in r}
        if len(variants) >= 2:
            dep = True
    ctx.ob("D1.NO-TYPE-SNIFF", "detoast_rows", not dep, "result variant does not depend on the bytes being valid UTF-8" if not dep else
           "the detoasted value becomes Text or Blob depending on whether String::from_utf8 succeeds: a BLOB containing valid UTF-8 is "
           "returned as TEXT", (sniff or [f.calls[0]])[0].loc())
    # D2
    loops = f.loops()
    nexts = [c for c in f.calls if c.name.endswith("Iterator>::next") or c.name.endswith("Iterator::next")]
    ok2 = None
    for c in nexts:
        mine = [(h, b) for h, b in loops if c.bb in b]
        if len(mine) < 2:
            continue
        inner = min(mine, key=lambda x: len(x[1]))
        outer = max(mine, key=lambda x: len(x[1]))
        # iterator local -> into_iter/iter call -> its argument's root local
        pl = operand_place(c.args[0]) if c.args else None
        it = None
        l = pl[0] if pl else None
        for _ in range(6):
            ds = f.defs().get(l, []) if l is not None else []
            if len(ds) == 1 and ds[0][0] == "stmt" and ds[0][3][0] in ("ref", "use"):
                src = ds[0][3][2] if ds[0][3][0] == "ref" else operand_place(ds[0][3][1])
                l = src[0] if src else None
            elif len(ds) == 1 and ds[0][0] == "call":
                it = ds[0][2]
                break
            else:
                break
        if it is None or not it.args:
            continue
        q = operand_place(it.args[0])
        root = q[0] if q else None
        for _ in range(6):
            ds = f.defs().get(root, []) if root is not None else []
            if len(ds) == 1 and ds[0][0] == "stmt" and ds[0][3][0] in ("ref", "use", "cast"):
                src = ds[0][3][2] if ds[0][3][0] == "ref" else operand_place(ds[0][3][1] if ds[0][3][0] == "use" else ds[0][3][2])
                if src is None:
                    break
                root = src[0]
            else:
                break
        ds = f.defs().get(root, []) if root is not None else []
        inside = bool(ds) and all(d[1] in outer[1] for d in ds)
        ok2 = inside if ok2 is None else (ok2 and inside)
    ctx.ob("D2.PER-VALUE-DETOAST", "detoast_rows", bool(ok2), "the inner loop iterates values of the current row" if ok2 else
           "the inner loop of detoast_rows iterates a collection that was computed outside the row loop (or no nested iteration was "
           "found): columns are chosen once, so a TOAST pointer in a later row is returned undecoded", f.loc())
    # D3
    roots = [g for g in m.fns.values() if g.kind != "closure" and g.self_ty.endswith("database::Database") and g.vis == "pub"
             and g.id.rsplit("::", 1)[-1] in ("query", "query_with_columns", "execute")]
    ctx.floor("D3.query_roots", len(roots), 2)
    for g in sorted(roots, key=lambda g: g.id):
        hit = m.may_reach_callee([g.key], lambda c: c.name == f.key or c.name == f.id)
        ctx.ob("D3.DETOAST-ON-READ", g.id.rsplit("::", 1)[-1], bool(hit), "reaches detoast_rows" if hit else "a query entry point never detoasts", g.loc())
    # D4
    rd = [g for g in m.fns.values() if g.id.endswith("OwnedValue::from_record_column")]
    if len(rd) == 1:
        sws = codec.enum_switches(rd[0], "types::data_type::DataType", m)
        if sws:
            _, arms, other = max(sws, key=lambda x: len(x[1]))
            allv = {v["name"] for v in m.adts["types::data_type::DataType"]["variants"]}
            ctx.stat("D4.reader_arms", len(arms))
            missing = sorted(allv - set(arms))
            ctx.ob("D4.COLUMN-DISPATCH", "from_record_column", len(arms) >= len(allv) - 4, "%d of %d DataType variants have their own reader arm (default arm: %s)" % (len(arms), len(allv), missing), rd[0].loc())

    # D5
    sa = [g for g in m.fns.values() if g.id.endswith("RecordBuilder::<'a>::set_int_auto")]
    if len(sa) != 1 or len(rd) != 1:
        raise CheckError("set_int_auto / from_record_column anchors")
    sa = sa[0]

    def elem_type(fn_suffix, kind):
        for g in m.fns.values():
            if g.id.endswith(fn_suffix) and g.kind != "closure":
                tys = [codec.int_conv(c) for c in g.calls]
                tys = [t[1] for t in tys if t and t[0] == kind]
                if tys:
                    return tys[0]
                # one level of delegation (get_x_opt -> get_x)
                for c in g.calls:
                    h = m.fns.get(c.name)
                    if h is not None and ("RecordView" in h.id or "RecordBuilder" in h.id):
                        t2 = [codec.int_conv(x) for x in h.calls]
                        t2 = [t[1] for t in t2 if t and t[0] == kind]
                        if t2:
                            return t2[0]
        return None
    wsw = codec.enum_switches(sa, "types::data_type::DataType", m)
    rsw = codec.enum_switches(rd[0], "types::data_type::DataType", m)
    if not wsw or not rsw:
        raise CheckError("DataType dispatch in set_int_auto/from_record_column not found")
    _, warms, wother = max(wsw, key=lambda x: len(x[1]))
    _, rarms, _ = max(rsw, key=lambda x: len(x[1]))
    n5 = 0
    for T in ("Int2", "Int4", "Int8", "Float4", "Float8"):
        wt = warms.get(T, wother)
        wreg = set(codec.dominated(sa, wt))
        setters = [c.name for c in sa.calls if c.bb in wreg and "RecordBuilder" in c.name and c.name.rsplit("::", 1)[-1].startswith("set_")]
        rreg = set(codec.dominated(rd[0], rarms[T])) if T in rarms else set()
        getters = [c.name for c in rd[0].calls if c.bb in rreg and "RecordView" in c.name and c.name.rsplit("::", 1)[-1].startswith("get_")]
        wty = elem_type(setters[0].split("records::builder::")[-1], "w") if setters else None
        rty = elem_type(getters[0].split("records::view::")[-1], "r") if getters else None
        n5 += 1
        ok = wty is not None and wty == rty
        ctx.ob("D5.NUMERIC-SETTER", T, ok, "integer values for %s columns are written as %s and read as %s" % (T, wty, rty) if ok else
               "an integer value for a %s column is written with %s (%s) but the column is read with %s (%s): the value comes back as a "
               "different number" % (T, setters[0].rsplit("::", 1)[-1] if setters else "?", wty, getters[0].rsplit("::", 1)[-1] if getters else "?", rty), sa.loc())
    ctx.floor("D5.numeric_types", n5, 5)
    import dmlrules
    dmlrules.root_writeback(ctx, "D6.ROOT-WRITEBACK", ["database::toast::<impl database::database::Database>::toast_value",
                                                     "database::dml::insert::<impl database::database::Database>::execute_insert_internal"])
    # D7 (C42 W1 restricted to the TOAST writer): WAL on and WAL off write the same chunks and the same root/hint bookkeeping
    from props import c42
    c42.arm_agree(ctx, "D7.TOAST-ARMS-AGREE", lambda f: f.id.startswith("database::toast::"), 1)
