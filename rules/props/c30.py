"""C30 Vectorised leaf search equals binary search — window-soundness and dispatch clauses.

The SIMD prefix search only narrows a window [left, right); the exact answer is then found by a scalar binary search inside it.
The result can equal a plain binary search only if the window never loses a slot whose 4-byte prefix *equals* the target's
(the full-key comparison decides among those).  Structural clauses:

 S1 UPPER-BOUND-SEES-EQUALITY  in every SIMD narrowing kernel (a function of btree::simd_scan with SIMD compare intrinsics), each
                               store to the window's upper bound inside the narrowing loop depends — through data or control —
                               on the equality comparison of the batch with the target (cmpeq), not on the less-than mask
                               alone: "no lane is below the target" also holds when lanes are equal to it.
 S2 DISPATCH-GUARD             the AVX2 kernel is reachable from find_key_simd only when __is_feature_detected::avx2 is true.
 S3 FINAL-BSEARCH              find_key_simd's final loop is a textbook binary search over [left, right): guard left < right,
                               mid = left + (right - left) / 2, every store to left is mid + 1 and every store to right is mid.
 S4 CLAMP                      the window handed over by the kernel is clamped with min(cell_count) before the final loop.
Only the kernels compiled for the analysed target (x86_64 AVX2 + scalar) are covered.  Equality of positions for every page and
probe key is NOT decided.
"""
from model import CheckError, operand_place
from paths import assumed_cuts, call_named
import dmlrules
from props.c24 import _const_switch_cuts, _copy_of

S = "btree::simd_scan::"
CMP_EQ = ("_mm256_cmpeq_epi32", "_mm_cmpeq_epi32", "vceqq_u32")
CMP_ANY = CMP_EQ + ("_mm256_cmpgt_epi32", "_mm_cmpgt_epi32", "vcltq_u32", "vcgtq_u32")


def result_bounds(f):
    """locals returned as fields 0 and 1 of the result tuple on the loop-exit path"""
    out = []
    for bb, b in enumerate(f.blocks):
        for s in b["s"]:
            if s[0] == "=" and s[1][0] == 0 and not s[1][1] and s[2][0] == "agg" and s[2][1] == "tuple" and len(s[2][4]) == 3:
                a, r = operand_place(s[2][4][0]), operand_place(s[2][4][1])
                if a is not None and r is not None:
                    out.append((_root(f, a[0]), _root(f, r[0])))
    return out


def _root(f, local, depth=4):
    while depth > 0:
        depth -= 1
        ds = f.defs().get(local, [])
        if len(ds) != 1 or ds[0][0] != "stmt" or ds[0][3][0] != "use":
            return local
        q = operand_place(ds[0][3][1])
        if q is None or q[1]:
            return local
        local = q[0]
    return local


def run(ctx):
    m = ctx.m
    ctx.clause = ("SIMD leaf search: upper-bound moves of the narrowing window depend on the equality comparison; AVX2 kernel only "
                  "under the runtime feature test; the final loop is a textbook binary search over the clamped window.")
    kernels = [f for f in m.fns.values() if f.id.startswith(S) and f.kind != "closure" and
               any(c.name.rsplit("::", 1)[-1] in CMP_ANY for c in f.calls)]
    ctx.floor("S1.simd_kernels", len(kernels), 1)
    for f in sorted(kernels, key=lambda f: f.id):
        short = f.id.rsplit("::", 1)[-1]
        bounds = result_bounds(f)
        if not bounds:
            raise CheckError("%s: result tuple not found" % short)
        left, right = bounds[-1]
        eqs = {c.dest[0] for c in f.calls if c.name.rsplit("::", 1)[-1] in CMP_EQ and c.dest is not None}
        loops = f.loops()
        items = list(loops.items()) if isinstance(loops, dict) else list(loops)
        cmpbbs = [c.bb for c in f.calls if c.name.rsplit("::", 1)[-1] in CMP_ANY]
        lp = [(h, b) for h, b in items if any(x in b for x in cmpbbs)]
        if not lp:
            raise CheckError("%s: narrowing loop not found" % short)
        h, body = max(lp, key=lambda x: len(x[1]))
        # stores that are followed by `break` leave the natural loop: take everything the first compare dominates
        first_cmp = min(x for x in cmpbbs if x in body)
        body = set(body) | {b for b in range(len(f.blocks)) if f.dominates(first_cmp, b)}
        k = 0
        for bb in sorted(body):
            for st in f.blocks[bb]["s"]:
                if st[0] == "=" and st[1][0] == right and not st[1][1]:
                    # dependence of the stored value and of the branch decisions that lead to this store
                    vals = set()
                    if st[2][0] == "use":
                        q = operand_place(st[2][1])
                        if q is not None:
                            vals |= dmlrules._deps(f, q[0], stop=(left, right))
                    ctrl = set()
                    for d in f.dominators().get(bb, ()):
                        if d in body and d != bb and f.blocks[d]["t"][0] == "switch":
                            q = operand_place(f.blocks[d]["t"][1])
                            if q is not None:
                                ctrl |= dmlrules._deps(f, q[0], stop=(left, right))
                    ok = bool((vals | ctrl) & eqs)
                    ctx.ob("S1.UPPER-BOUND-SEES-EQUALITY", "%s#%d" % (short, k), ok,
                           "the new upper bound depends on the equality mask" if ok else
                           "the upper bound of the search window is lowered (L%s) on the strength of the less-than mask alone: slots whose prefix equals "
                           "the target's are cut out of the window and an existing key is reported missing" % st[3], "%s:%s" % (f.file, st[3]))
                    k += 1
        ctx.stat("S1.%s.upper_bound_stores" % short, k)
        if k == 0:
            raise CheckError("%s: no store to the upper bound inside the narrowing loop" % short)
    lower_bound_needs_strictly_less(ctx, kernels)
    # S2
    fk = m.fn(S + "find_key_simd")
    calls = [c for c in fk.calls if c.name.startswith(S) and c.name.endswith("_avx2")]
    if calls:
        cuts, applied = assumed_cuts(fk, [call_named("__is_feature_detected::avx2", False)])
        cuts = set(cuts) | _const_switch_cuts(fk)
        reach = fk.reachable([0], cut_edges=cuts)
        bad = not applied or any(c.bb in reach for c in calls)
        ctx.ob("S2.DISPATCH-GUARD", "find_key_simd", not bad, "AVX2 kernel reached only when avx2 is detected" if not bad else
               "the AVX2 kernel is reachable although avx2 was not detected", calls[0].loc())
    else:
        raise CheckError("find_key_simd does not call an AVX2 kernel on this target")
    # S3 / S4
    loops = fk.loops()
    items = list(loops.items()) if isinstance(loops, dict) else list(loops)
    fin = None
    for h, body in items:
        for st in fk.blocks[h]["s"]:
            if st[0] == "=" and st[2][0] == "bin" and st[2][1] == "Lt":
                a, b = operand_place(st[2][2]), operand_place(st[2][3])
                if a is not None and b is not None:
                    fin = (h, body, _root(fk, a[0]), _root(fk, b[0]))
    if fin is None:
        raise CheckError("final binary-search loop (guard left < right) not found in find_key_simd")
    h, body, L, R = fin
    mids = set()
    for bb in body:
        for st in fk.blocks[bb]["s"]:
            # mid = left + (right - left) / 2  : an Add whose first operand is a copy of L
            if st[0] == "=" and st[2][0] == "bin" and st[2][1] in ("Add", "AddWithOverflow"):
                a = operand_place(st[2][2])
                if a is not None and _copy_of(fk, a[0], L) and st[2][3][0] != "k":
                    mids.add(st[1][0])
    def is_mid(local, depth=5):
        while depth > 0:
            depth -= 1
            if local in mids:
                return True
            ds = fk.defs().get(local, [])
            if len(ds) != 1 or ds[0][0] != "stmt" or ds[0][3][0] != "use":
                return False
            q = operand_place(ds[0][3][1])
            if q is None:
                return False
            local = q[0]
        return False
    badL, badR, nL, nR = [], [], 0, 0
    for bb in body:
        for st in fk.blocks[bb]["s"]:
            if st[0] == "=" and not st[1][1] and st[1][0] in (L, R) and st[2][0] == "use":
                q = operand_place(st[2][1])
                src = q[0] if q else None
                if st[1][0] == R:
                    nR += 1
                    if src is None or not is_mid(src):
                        badR.append(st[3])
                else:
                    nL += 1
                    # left = (mid + 1).0
                    ok = False
                    ds = fk.defs().get(src, []) if src is not None else []
                    if len(ds) == 1 and ds[0][0] == "stmt" and ds[0][3][0] == "bin" and ds[0][3][1] in ("Add", "AddWithOverflow"):
                        a = operand_place(ds[0][3][2])
                        kk = ds[0][3][3]
                        ok = a is not None and is_mid(a[0]) and kk[0] == "k" and kk[4] == 1
                    if not ok:
                        badL.append(st[3])
    ok3 = not badL and not badR and nL >= 1 and nR >= 1 and bool(mids)
    ctx.ob("S3.FINAL-BSEARCH", "find_key_simd", ok3, "guard left < right; %d store(s) left = mid + 1, %d store(s) right = mid" % (nL, nR) if ok3 else
           "the final loop is not a textbook binary search (left stored from something other than mid + 1 at L%s / right from something other than "
           "mid at L%s): it skips a slot or never terminates" % (badL, badR), fk.loc())
    clamp = [c for c in fk.calls if c.name.endswith("cmp::Ord>::min") or c.name.endswith("Ord::min")]
    okc = any(fk.dominates(c.bb, h) and c.dest is not None and _root(fk, c.dest[0]) in (R,) or
              (fk.dominates(c.bb, h) and any(st[0] == "=" and st[1][0] == R and operand_place(st[2][1]) and operand_place(st[2][1])[0] == c.dest[0]
                                             for b2 in fk.blocks for st in b2["s"] if st[0] == "=" and st[2][0] == "use")) for c in clamp)
    ctx.ob("S4.CLAMP", "find_key_simd", okc, "right = right.min(cell_count) before the final loop" if okc else
           "the window returned by the kernel is not clamped to cell_count before the final loop", fk.loc())
    found_needs_full_compare(ctx)


def found_needs_full_compare(ctx):
    """S5 FOUND-NEEDS-FULL-COMPARE: slots carry a zero-padded 4-byte prefix, so equal prefixes do not imply equal keys ("ab" and
    "ab\\0" share one).  Every SearchResult::Found built by find_key_simd is dominated by a comparison of the full stored key with the
    whole probe (Ord::cmp on byte slices, one operand being the `key` parameter itself, not a sub-slice)."""
    m = ctx.m
    f = m.fn(S + "find_key_simd")
    from paths import arg_origin
    probe = [i for i in range(1, f.nargs + 1) if any(d[0] == "key" and d[1][0] == i and not d[1][1] for d in f.dbg)]
    if len(probe) != 1:
        raise CheckError("find_key_simd: probe parameter `key` not found")
    # the comparison must take the probe itself, not a sub-slice of it: with both sides cut behind the padded prefix, keys that
    # differ only inside the padding ("a" / "a\\0") compare equal
    cmps = [c for c in f.calls if c.name.rsplit("::", 1)[-1] == "cmp" and "[u8]" in c.full
            and any(arg_origin(f, c, i)[0] == "arg" and arg_origin(f, c, i)[1] == probe[0] for i in range(len(c.args)))]
    founds = [(bb, s) for bb, b in enumerate(f.blocks) for s in b["s"]
              if s[0] == "=" and s[2][0] == "agg" and s[2][1] == "adt" and s[2][2].endswith("SearchResult") and s[2][3] == "Found"]
    if not founds:
        raise CheckError("find_key_simd builds no SearchResult::Found")
    for k, (bb, s) in enumerate(founds):
        ok = any(f.dominates(c.bb, bb) for c in cmps)
        ctx.ob("S5.FOUND-NEEDS-FULL-COMPARE", "find_key_simd#%d" % k, ok, "Found is returned only after a full-key comparison" if ok else
               "find_key_simd returns Found (L%s) on the strength of the 4-byte prefix alone: keys that differ only in trailing zero bytes "
               "(or in length) are reported as present at another key's slot" % s[3], "%s:%s" % (f.file, s[3]))


def lower_bound_needs_strictly_less(ctx, kernels):
    """S1b LOWER-BOUND-NEEDS-LESS: the lower bound may be raised past the start of a batch only by the number of lanes strictly below
    the target, and only when that number is not zero — with zero such lanes the batch may begin inside a run of equal prefixes that
    started before it.  Every `base + count` value that flows into the lower bound is computed under the true side of a `count > 0`
    (or != 0) test."""
    m = ctx.m
    for f in kernels:
        short = f.id.rsplit("::", 1)[-1]
        left, right = result_bounds(f)[-1]
        # locals that flow into `left` through copies
        flows = {left}
        changed = True
        while changed:
            changed = False
            for l in list(flows):
                for d in f.defs().get(l, []):
                    if d[0] == "stmt" and d[3][0] == "use":
                        q = operand_place(d[3][1])
                        if q is not None and q[0] not in flows:
                            flows.add(q[0])
                            changed = True
        k = 0
        for bb, b in enumerate(f.blocks):
            for st in b["s"]:
                if st[0] == "=" and st[1][0] in flows and st[2][0] == "bin" and st[2][1] in ("Add", "AddWithOverflow") and st[2][3][0] != "k":
                    # base + count
                    guarded = False
                    for d in f.dominators().get(bb, ()):
                        t = f.blocks[d]["t"]
                        if t[0] != "switch" or t[2] != "bool" or d == bb:
                            continue
                        pl = operand_place(t[1])
                        kk, p, neg = f.origin(pl[0]) if pl and not pl[1] else (None, None, False)
                        if kk == "rvalue" and p[0] == "bin" and p[1] in ("Gt", "Ne") and p[3][0] == "k" and p[3][4] == 0 and not neg:
                            true_t = [t[4]] if [x for x in t[3] if x[0] == 0] else [x[1] for x in t[3] if x[0] == 1]
                            if true_t and f.dominates(true_t[0], bb):
                                guarded = True
                    # the tuple temp of AddWithOverflow is in flows only via `.0`; accept both shapes
                    ctx.ob("S1b.LOWER-BOUND-NEEDS-LESS", "%s#%d" % (short, k), guarded,
                           "the raised lower bound is computed under a `count > 0` test" if guarded else
                           "the lower bound of the search window is raised to base + count (L%s) without a `count > 0` test: when no lane is strictly "
                           "below the target the batch start is taken as the bound and equal-prefix slots before it are lost" % st[3], "%s:%s" % (f.file, st[3]))
                    k += 1
        ctx.stat("S1b.%s.raise_sites" % short, k)
