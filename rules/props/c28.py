"""C28 The B-tree behaves as an ordered map — guard clauses of the two append fast paths only.

BTree::try_append_fastpath and BTree::try_fastpath_insert write a new cell at the END of a hinted leaf without searching.  That
keeps the leaf sorted, and the tree an ordered map, only if the hinted page is still the rightmost leaf and the new key is greater
than the leaf's last key.  Structural clauses, for each of the two sibling fast paths:

 A1 RIGHTMOST-CHECK   the write into the page is dominated by a test that the leaf's next-leaf pointer is 0.
 A2 ORDER-CHECK       on every path from "the leaf is not empty" to the write, the new key is compared with the last key of the leaf
                      (an ordering comparison on byte slices), and the write is not reachable from the side on which the comparison
                      says key <= last.
 A3 SPACE-CHECK       the write is dominated by a comparison of the needed size with the free space.
 A4 SIBLINGS          both fast paths carry all three guards.
Everything else C28 states (results of arbitrary operation histories, cursors, splits, deletes) is NOT decided.
"""
from model import CheckError, operand_place
from paths import source_call

T = "btree::tree::BTree::<'a, S>::"


def cond(f, bb):
    t = f.blocks[bb]["t"]
    if t[0] != "switch" or t[2] != "bool":
        return None
    pl = operand_place(t[1])
    if pl is None or pl[1]:
        return None
    return f.origin(pl[0])


def run(ctx):
    m = ctx.m
    ctx.clause = ("Append fast paths: the page write is guarded by next_leaf == 0, by an ordering comparison of the new key with the "
                  "leaf's last key on every non-empty-leaf path, and by a free-space comparison; both sibling fast paths carry all three.")
    for name in ("try_append_fastpath", "try_fastpath_insert"):
        f = m.fn(T + name)
        writes = [c for c in f.calls if c.name.rsplit("::", 1)[-1] in ("copy_from_slice", "insert_at_end", "insert_cell", "insert_cell_at")]
        if not writes:
            raise CheckError("%s: page write not found" % name)
        w = min(writes, key=lambda c: (c.line, c.bb))
        doms = [d for d in f.dominators().get(w.bb, ()) if d != w.bb]
        # A1
        a1 = False
        for d in doms:
            o = cond(f, d)
            if o and o[0] == "rvalue" and o[1][0] == "bin" and o[1][1] in ("Ne", "Eq"):
                k = o[1][3] if o[1][3][0] == "k" else o[1][2] if o[1][2][0] == "k" else None
                other = o[1][2] if k is o[1][3] else o[1][3]
                if k is not None and k[4] == 0:
                    q = operand_place(other)
                    sc = source_call(f, q[0]) if q is not None and not q[1] else None
                    if sc is not None and (sc.name.rsplit("::", 1)[-1] == "next_leaf" or sc.name.endswith("<impl u32>::from_le_bytes")):
                        a1 = True
        ctx.ob("A1.RIGHTMOST-CHECK", name, a1, "write dominated by a next-leaf == 0 test" if a1 else
               "%s appends to the hinted leaf without checking that it is still the rightmost one: after a split the key lands in the middle "
               "of the key space" % name, w.loc())
        # A2
        cmps = [c for c in f.calls if "PartialOrd" in c.name and c.name.rsplit("::", 1)[-1] in ("le", "lt", "ge", "gt", "partial_cmp") or
                (c.name.rsplit("::", 1)[-1] == "cmp" and "[u8]" in c.full)]
        a2 = False
        why2 = "no ordering comparison between the new key and the leaf's last key"
        if cmps:
            # the non-empty test: a Gt/Ne/Lt against 0 of the cell count whose true side contains the comparison
            blocked = {c.bb for c in cmps}
            a2 = True
            for d in doms:
                o = cond(f, d)
                if o and o[0] == "rvalue" and o[1][0] == "bin" and o[1][1] in ("Gt", "Ne") and (o[1][3][0] == "k" and o[1][3][4] == 0):
                    t = f.blocks[d]["t"]
                    true_t = [x[1] for x in t[3] if x[0] == 1] or [t[4]]
                    if [x for x in t[3] if x[0] == 0]:
                        true_t = [t[4]]
                    if o[2]:
                        continue
                    side = true_t[0]
                    if any(c.bb in f.reachable([side]) and f.dominates(side, c.bb) for c in cmps):
                        if w.bb in f.reachable([side], blocked=blocked):
                            a2, why2 = False, "a path from `leaf not empty` reaches the write without comparing the new key with the last key"
            # the write must sit on the `key > last` side: not reachable from the side where le/lt-like result is true
            for c in cmps:
                sw = c.target
                t = f.blocks[sw]["t"] if sw is not None else None
                if t and t[0] == "switch" and t[2] == "bool" and c.name.rsplit("::", 1)[-1] in ("le", "lt"):
                    true_t = [t[4]] if [x for x in t[3] if x[0] == 0] else [x[1] for x in t[3] if x[0] == 1]
                    if true_t and w.bb in f.reachable([true_t[0]]):
                        a2, why2 = False, "the write is reachable from the side where key <= last key"
        ctx.ob("A2.ORDER-CHECK", name, a2, "every non-empty-leaf path compares the new key with the last key before the write" if a2 else
               "%s: %s — an out-of-order key is appended and the leaf is no longer sorted" % (name, why2), w.loc())
        # A3
        a3 = False
        for d in doms:
            o = cond(f, d)
            if o and o[0] == "rvalue" and o[1][0] == "bin" and o[1][1] in ("Lt", "Le", "Ge", "Gt"):
                for side in (o[1][2], o[1][3]):
                    q = operand_place(side)
                    if q is None or q[1]:
                        continue
                    sc = source_call(f, q[0])
                    if sc is not None and sc.name.rsplit("::", 1)[-1] == "free_space":
                        a3 = True
                    ds = f.defs().get(q[0], [])
                    k2 = f.origin(q[0])
                    if k2[0] == "rvalue" and k2[1][0] == "bin" and k2[1][1] in ("Sub", "SubWithOverflow"):
                        a3 = True
                    if len(ds) == 1 and ds[0][0] == "stmt" and ds[0][3][0] == "use":
                        qq = operand_place(ds[0][3][1])
                        if qq is not None and qq[1]:
                            k3 = f.origin(qq[0])
                            if k3[0] == "rvalue" and k3[1][0] == "bin" and k3[1][1] in ("Sub", "SubWithOverflow"):
                                a3 = True
        ctx.ob("A3.SPACE-CHECK", name, a3, "write dominated by a free-space comparison" if a3 else
               "%s writes the cell without comparing the needed size with the free space" % name, w.loc())
    split_pairing(ctx)
    value_after_new_varint(ctx)


def split_pairing(ctx):
    """A5 SPLIT-PAIRING: in split_interior the new separator goes to position p of the merged separator list and the new right child to
    position p + 1 of the merged child list (child i + 1 is the subtree right of separator i).  The index of the child insertion is
    the separator index plus the constant 1."""
    m = ctx.m
    fs = [f for f in m.fns.values() if f.kind != "closure" and f.id.startswith("btree::tree::BTree::") and f.id.endswith("::split_interior")]
    if len(fs) != 1:
        raise CheckError("split_interior: %d candidates" % len(fs))
    f = fs[0]
    ins = [c for c in f.calls if c.name.rsplit("::", 1)[-1] == "insert" and "Vec" in c.name and len(c.args) >= 3]
    sep = [c for c in ins if "[u8]" in c.full]
    chi = [c for c in ins if "u32" in c.full and "[u8]" not in c.full]
    if not sep or not chi:
        raise CheckError("split_interior: separator/child insertions not found (%d/%d)" % (len(sep), len(chi)))
    sp = operand_place(sep[0].args[1])
    ok = False
    for c in chi:
        pl = operand_place(c.args[1])
        if pl is None:
            continue
        k, p, _ = f.origin(pl[0])
        ds = f.defs().get(pl[0], [])
        # (insert_pos + 1).0
        loc = pl[0]
        for _ in range(4):
            ds = f.defs().get(loc, [])
            if len(ds) == 1 and ds[0][0] == "stmt" and ds[0][3][0] == "use":
                q = operand_place(ds[0][3][1])
                if q is None:
                    break
                loc = q[0]
                continue
            break
        ds = f.defs().get(loc, [])
        if len(ds) == 1 and ds[0][0] == "stmt" and ds[0][3][0] == "bin" and ds[0][3][1] in ("Add", "AddWithOverflow") and ds[0][3][3][0] == "k" and ds[0][3][3][4] == 1:
            a = operand_place(ds[0][3][2])
            if a is not None and sp is not None and _same_local(f, a[0], sp[0]):
                ok = True
    ctx.ob("A5.SPLIT-PAIRING", "split_interior", ok, "child inserted at separator position + 1" if ok else
           "the new right child is not inserted at (separator position + 1): the two halves of the split child end up on the wrong sides of "
           "the new separator and lookups for their keys are routed to the wrong page", chi[0].loc())


def _same_local(f, a, b, depth=4):
    def root(x):
        d = depth
        while d > 0:
            d -= 1
            ds = f.defs().get(x, [])
            if len(ds) != 1 or ds[0][0] != "stmt" or ds[0][3][0] != "use":
                return x
            q = operand_place(ds[0][3][1])
            if q is None or q[1]:
                return x
            x = q[0]
        return x
    return root(a) == root(b)


def value_after_new_varint(ctx):
    """A6 VALUE-AFTER-NEW-VARINT: a leaf cell is key | varint(value length) | value.  Readers find the value right behind the varint
    they decode, so every writer that (re)encodes the length must place the value bytes at an offset that depends on the size of the
    varint it has just written (encode_varint's return value or varint_len of the new length) — not on the size of an older varint."""
    import dmlrules
    from paths import source_call
    m = ctx.m
    n = 0
    for f in sorted(m.fns.values(), key=lambda f: f.id):
        if not (f.id.startswith("btree::leaf::LeafNodeMut::") or f.id.startswith("btree::tree::BTree::")) or f.kind == "closure":
            continue
        encs = [c for c in f.calls if c.name.endswith("encoding::varint::encode_varint")]
        if not encs:
            continue
        sizes = {c.dest[0] for c in f.calls if c.dest is not None and (c.name.endswith("encoding::varint::encode_varint") or c.name.endswith("encoding::varint::varint_len"))}
        copies = [c for c in f.calls if c.name.endswith("::copy_from_slice")]
        for e in encs:
            # the first copy_from_slice that follows this encode on the straight path: the value bytes
            after = [c for c in copies if f.dominates(e.bb, c.bb) and c.bb != e.bb]
            if not after:
                continue
            c = min(after, key=lambda c: (c.line, c.bb))
            n += 1
            pl = operand_place(c.args[0])
            src = source_call(f, pl[0]) if pl is not None and not pl[1] else None
            ok = False
            if src is not None and "IndexMut" in src.name and len(src.args) >= 2:
                q = operand_place(src.args[1])
                if q is not None:
                    ok = bool(dmlrules._deps(f, q[0]) & sizes)
            short = f.id.split("::")[2].split("<")[0] + "::" + f.id.rsplit("::", 1)[-1]
            ctx.ob("A6.VALUE-AFTER-NEW-VARINT", "%s@%d" % (short, [x for x in encs].index(e)), ok,
                   "the value is written behind the varint just encoded" if ok else
                   "%s re-encodes the value length but places the value bytes at an offset that does not depend on the size of the new varint: when the "
                   "varint gets shorter the value lands past the position readers compute" % short, c.loc())
    ctx.floor("A6.encode_then_copy_sites", n, 3)
