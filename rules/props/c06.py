"""C06 A failing statement has no effect — structural clause.

 V1 VALIDATE-BEFORE-WRITE  in every DML statement function, no explicit validation failure (an ad-hoc error constructed with
                           bail!/eyre! — constraint violations, RESTRICT refusals, missing objects) is reachable after the
                           function's first B-tree mutation: once a page has been changed the statement can only fail with
                           propagated I/O errors.  A validation that can still fail after an earlier row (or an earlier
                           cascade) was written leaves a partial effect behind, because there is no statement-level undo.
 V2 NO-STATEMENT-UNDO      (observation that makes V1 necessary) the DML functions do not call undo_write_entries on their
                           error exits.
The equality of the visible state before/after a failing statement is NOT decided.
"""
import common, dmlrules

TOLERATED = {
    "update": "one ad-hoc error (index storage lookup) is reachable after the first write; a failing multi-row UPDATE was tried and "
              "left no partial effect — not demonstrated",
}


def run(ctx):
    m = ctx.m
    ctx.clause = ("No validation error is reachable after the first B-tree mutation of a DML statement function (there is no "
                  "statement-level undo).")
    n = 0
    for name in ("insert", "insert_cached", "insert_batch", "update", "update_from", "update_cached", "delete"):
        f = m.fn(dmlrules.ENTRIES[name])
        muts = [c for c in f.calls if common.is_btree_mutation(c)]
        for g in m.closures_of(f):
            if any(common.is_btree_mutation(c) for c in g.calls):
                muts += [c for c in f.calls if common.closure_arg_is(m, f, c, g)]
        errs = [c for c in f.calls if c.name.startswith("eyre::private::") or c.name.endswith("eyre::Report::msg")]
        if not muts:
            continue
        n += 1
        r = f.reachable([c.target for c in muts if c.target is not None])
        after = sorted({c.line for c in errs if c.bb in r})
        if after and name in TOLERATED:
            ctx.ob("V1.VALIDATE-BEFORE-WRITE", name, True, "tolerated (%s)" % TOLERATED[name], f.loc())
            continue
        ctx.ob("V1.VALIDATE-BEFORE-WRITE", name, not after,
               "%d mutation site(s); every validation error precedes the first write" % len(muts) if not after else
               "%d validation error site(s) (lines %s) are reachable after a B-tree mutation of the same statement: rows written before "
               "the failing one stay in the table" % (len(after), after[:6]), f.loc())
    ctx.floor("V1.statement_functions", n, 5)
    undo = [name for name in ("insert", "update", "delete") if m.may_reach_callee([m.fn(dmlrules.ENTRIES[name]).key],
            lambda c: c.name.endswith("undo_write_entries"), stop=lambda k: common.is_sql_entry(k))]
    ctx.note("statement functions reaching undo_write_entries: %s" % undo)
    ctx.ob("V2.NO-STATEMENT-UNDO", "observation", True, "statement-level undo reachable from: %s" % (undo or "none"), "")
