"""C22 No input makes the library panic, abort or hang — two structural clauses.

 R1 DEPTH-GUARD    recursion driven by input nesting carries a depth guard: in each input-facing recursive cycle (strongly
                   connected component of the call graph) of the SQL parser and of the JSON literal converter, the functions
                   that compare a depth counter with a constant and bail form a feedback vertex set (removing them leaves no
                   cycle), and the counter is incremented inside the cycle.  Without it a few thousand nested parentheses
                   overflow the stack, which aborts the process.
 A1 CHECKED-ARITH  (shared with C20) SQL integer arithmetic sites are checked.
Explicit unwrap/expect/index reachability from the API is NOT claimed (hundreds of sites, no exact value-insensitive rule).
"""
import recur, arith
from props import c20

SCOPES = [("sql::parser::Parser", 3), ("database::convert::<impl database::database::Database>::parse_json", 2)]
TOLERATED = {
    "parsing::json": "same shape as the JSON literal converter; overflow not demonstrated through the public API",
    "sql::predicate::CompiledPredicate::<'a>::parse_json": "same shape; not demonstrated",
}


def guard_functions(m, comp):
    """functions of the component that compare a counter with a constant >= 8 and have an error exit"""
    out = set()
    for k in comp:
        f = m.fns[k]
        for b in f.blocks:
            for s in b["s"]:
                if s[0] == "=" and s[2][0] == "bin" and s[2][1] in ("Gt", "Ge", "Lt", "Le"):
                    rv = s[2]
                    kc = rv[3] if rv[3][0] == "k" else rv[2] if rv[2][0] == "k" else None
                    if kc is None or kc[4] is None or kc[4] < 8:
                        continue
                    src = recur.value_source(f, rv[2] if rv[3][0] == "k" else rv[3])
                    if src and (src[0] == "param" or "depth" in src[1].lower() or "level" in src[1].lower() or "nest" in src[1].lower()):
                        out.add(k)
    return out


def acyclic_without(adj, comp, removed):
    nodes = [x for x in comp if x not in removed]
    color = {}
    for r in nodes:
        if r in color:
            continue
        st = [(r, iter([y for y in adj[r] if y in nodes]))]
        color[r] = 1
        while st:
            v, it = st[-1]
            for w in it:
                if color.get(w) == 1:
                    return False, (v, w)
                if w not in color:
                    color[w] = 1
                    st.append((w, iter([y for y in adj[w] if y in nodes])))
                    break
            else:
                color[v] = 2
                st.pop()
    return True, None


def run(ctx):
    m = ctx.m
    ctx.clause = ("Input-driven recursion (SQL parser, JSON literal converter) is depth-guarded on every cycle; SQL integer "
                  "arithmetic in the value evaluators is checked.")
    rec, adj = recur.sccs(m)
    n = 0
    for prefix, minsize in SCOPES:
        comps = [c for c in rec if any(x.startswith(prefix) for x in c) and len(c) >= minsize]
        for comp in comps:
            n += 1
            key = sorted(comp)[0].rsplit("::", 1)[0].replace("<impl database::database::Database>", "Database") + "::{%d fns}" % len(comp)
            g = guard_functions(m, comp)
            desc = recur.depth_guard(m, comp)
            ok = False
            why = "no depth counter is compared with a limit anywhere in the cycle"
            if g and desc:
                ac, edge = acyclic_without(adj, comp, g)
                ok = ac
                why = desc if ac else "guards %s do not cover the cycle %s -> %s" % (sorted(x.rsplit("::", 1)[-1] for x in g), edge[0].rsplit("::", 1)[-1], edge[1].rsplit("::", 1)[-1])
            ctx.ob("R1.DEPTH-GUARD", key, ok, ("every cycle passes a depth check (%s)" % why) if ok else
                   "unbounded input-driven recursion (%s): deeply nested input overflows the stack and aborts the process" % why,
                   m.fns[sorted(comp)[0]].loc())
    ctx.floor("R1.input_facing_cycles", n, 2)
    for prefix, reason in TOLERATED.items():
        for comp in [c for c in rec if any(x.startswith(prefix) for x in c) and len(c) >= 2]:
            if not recur.depth_guard(m, comp):
                ctx.note("unguarded recursion tolerated (%s): %s" % (reason, sorted(comp)[0]))
    # shared arithmetic clause
    sub = type("S", (), {})()
    c20_ctx = ctx
    before = len(ctx.obs)
    c20.run(ctx)
    ctx.obs = [o for i, o in enumerate(ctx.obs) if i < before or o["rule"].startswith("A1.")]
    ctx.clause = ("Input-driven recursion (SQL parser, JSON literal converter) is depth-guarded on every cycle; SQL integer "
                  "arithmetic in the value evaluators is checked.")
