"""C22 No input makes the library panic, abort or hang — two structural clauses.

 R1 DEPTH-GUARD    recursion driven by input nesting carries a depth guard: in each input-facing recursive cycle (strongly
                   connected component of the call graph) of the SQL parser and of the JSON literal converter, the functions
                   that compare a depth counter with a constant and bail form a feedback vertex set (removing them leaves no
                   cycle), and the counter is incremented inside the cycle.  Without it a few thousand nested parentheses
                   overflow the stack, which aborts the process.
 A1 CHECKED-ARITH  (shared with C20) SQL integer arithmetic sites are checked.
 R4 STR-SLICE-OFFSET  in the SQL scalar functions no SQL integer argument flows into the byte range of a str slice.
Explicit unwrap/expect/index reachability from the API is NOT claimed (hundreds of sites, no exact value-insensitive rule).
"""
import recur, arith
from props import c20

SCOPES = [("sql::parser::Parser", 3), ("database::convert::<impl database::database::Database>::parse_json", 2)]
TOLERATED = {
    "parsing::json": "same shape as the JSON literal converter; overflow not demonstrated through the public API",
    "sql::predicate::CompiledPredicate::<'a>::parse_json": "same shape; not demonstrated",
}


def guard_functions(m, comp):
    """functions of the component that compare a counter with a constant >= 8 and have an error exit"""
    out = set()
    for k in comp:
        f = m.fns[k]
        for b in f.blocks:
            for s in b["s"]:
                if s[0] == "=" and s[2][0] == "bin" and s[2][1] in ("Gt", "Ge", "Lt", "Le"):
                    rv = s[2]
                    kc = rv[3] if rv[3][0] == "k" else rv[2] if rv[2][0] == "k" else None
                    if kc is None or kc[4] is None or kc[4] < 8:
                        continue
                    src = recur.value_source(f, rv[2] if rv[3][0] == "k" else rv[3])
                    if src and (src[0] == "param" or "depth" in src[1].lower() or "level" in src[1].lower() or "nest" in src[1].lower()):
                        out.add(k)
    return out


def acyclic_without(adj, comp, removed):
    nodes = [x for x in comp if x not in removed]
    color = {}
    for r in nodes:
        if r in color:
            continue
        st = [(r, iter([y for y in adj[r] if y in nodes]))]
        color[r] = 1
        while st:
            v, it = st[-1]
            for w in it:
                if color.get(w) == 1:
                    return False, (v, w)
                if w not in color:
                    color[w] = 1
                    st.append((w, iter([y for y in adj[w] if y in nodes])))
                    break
            else:
                color[v] = 2
                st.pop()
    return True, None


def run(ctx):
    m = ctx.m
    ctx.clause = ("Input-driven recursion (SQL parser, JSON literal converter) is depth-guarded on every cycle; SQL integer "
                  "arithmetic in the value evaluators is checked.")
    rec, adj = recur.sccs(m)
    n = 0
    for prefix, minsize in SCOPES:
        comps = [c for c in rec if any(x.startswith(prefix) for x in c) and len(c) >= minsize]
        for comp in comps:
            n += 1
            key = sorted(comp)[0].rsplit("::", 1)[0].replace("<impl database::database::Database>", "Database") + "::{%d fns}" % len(comp)
            g = guard_functions(m, comp)
            desc = recur.depth_guard(m, comp)
            ok = False
            why = "no depth counter is compared with a limit anywhere in the cycle"
            if g and desc:
                ac, edge = acyclic_without(adj, comp, g)
                ok = ac
                why = desc if ac else "guards %s do not cover the cycle %s -> %s" % (sorted(x.rsplit("::", 1)[-1] for x in g), edge[0].rsplit("::", 1)[-1], edge[1].rsplit("::", 1)[-1])
            ctx.ob("R1.DEPTH-GUARD", key, ok, ("every cycle passes a depth check (%s)" % why) if ok else
                   "unbounded input-driven recursion (%s): deeply nested input overflows the stack and aborts the process" % why,
                   m.fns[sorted(comp)[0]].loc())
    ctx.floor("R1.input_facing_cycles", n, 2)
    for prefix, reason in TOLERATED.items():
        for comp in [c for c in rec if any(x.startswith(prefix) for x in c) and len(c) >= 2]:
            if not recur.depth_guard(m, comp):
                ctx.note("unguarded recursion tolerated (%s): %s" % (reason, sorted(comp)[0]))
    # shared arithmetic clause
    sub = type("S", (), {})()
    c20_ctx = ctx
    before = len(ctx.obs)
    c20.run(ctx)
    ctx.obs = [o for i, o in enumerate(ctx.obs) if i < before or o["rule"].startswith("A1.")]
    ctx.clause = ("Input-driven recursion (SQL parser, JSON literal converter) is depth-guarded on every cycle; SQL integer "
                  "arithmetic in the value evaluators is checked.")
    ctx.clause += " Slice adaptors that panic on a zero size (windows/chunks*/rchunks*/step_by) receive a provably non-zero size."
    nonzero_sizes(ctx)
    loop_progress(ctx)
    str_slice_offsets(ctx)


ZERO_PANICS = ("windows", "chunks", "chunks_exact", "chunks_mut", "chunks_exact_mut", "rchunks", "rchunks_exact", "rchunks_mut", "step_by")


def _base(f, local, depth=8):
    """chase copies / reborrows to the local a slice reference was taken from"""
    while depth > 0:
        depth -= 1
        ds = f.defs().get(local, [])
        if len(ds) != 1 or ds[0][0] != "stmt":
            return local
        rv = ds[0][3]
        if rv[0] == "use" and rv[1][0] in ("m", "c") and not rv[1][1][1]:
            local = rv[1][1][0]
        elif rv[0] in ("ref", "ptr") and (not rv[2][1] or rv[2][1] == ["*"]):
            local = rv[2][0]
        else:
            return local
    return local


def nonzero_sizes(ctx):
    """R2 NONZERO-SIZE: `windows(0)`, `chunks(0)`, `step_by(0)` ... panic.  Each call must get a constant >= 1, or `x.len()` of a
    slice whose emptiness is excluded by a dominating `x.is_empty()` / `x.len() == 0` test."""
    from model import operand_place
    from paths import const_value, source_call
    m = ctx.m
    n = 0
    for f in sorted(m.fns.values(), key=lambda f: f.id):
        for c in f.calls:
            t = c.name.rsplit("::", 1)[-1]
            if t not in ZERO_PANICS or len(c.args) < 2 or not ("slice" in c.name or "Iterator" in c.name or "iter::" in c.name):
                continue
            n += 1
            a = c.args[1]
            k = const_value(f, a)
            ok, why = False, "size argument is neither a non-zero constant nor the length of a slice tested non-empty before the call"
            if isinstance(k, int):
                ok, why = k >= 1, "constant size %s" % k
            else:
                pl = operand_place(a)
                src = source_call(f, pl[0]) if pl and not pl[1] else None
                root = None
                if src is not None and src.name.rsplit("::", 1)[-1] == "len" and src.args:
                    q = operand_place(src.args[0])
                    root = _base(f, q[0]) if q else None
                if root is not None:
                    for bb in f.dominators().get(c.bb, ()):
                        tm = f.blocks[bb]["t"]
                        if tm[0] != "switch" or tm[2] != "bool" or bb == c.bb:
                            continue
                        sp = operand_place(tm[1])
                        kk, pp, neg = f.origin(sp[0]) if sp and not sp[1] else (None, None, False)
                        if kk == "call" and pp is not None and pp.name.rsplit("::", 1)[-1] == "is_empty" and pp.args:
                            q = operand_place(pp.args[0])
                            if q and _base(f, q[0]) == root:
                                false_t = [x[1] for x in tm[3] if x[0] == 0]
                                true_t = tm[4]
                                tgt = true_t if neg else (false_t[0] if false_t else None)   # side on which is_empty() is false
                                if tgt is not None and f.dominates(tgt, c.bb):
                                    ok, why = True, "length of a slice tested non-empty on the dominating branch at L%s" % f.blocks[bb].get("l")
            ctx.ob("R2.NONZERO-SIZE", "%s:%s" % (f.id.rsplit("::", 1)[-1] if f.kind != "closure" else f.id.rsplit("::", 2)[-2] + "::closure", t), ok,
                   why if ok else "%s(n) panics when n == 0: %s" % (t, why), c.loc())
    ctx.floor("R2.sites", n, 5)


def loop_progress(ctx):
    """R3 LOOP-PROGRESS: a cursor loop (`while i < n`, `while self.pos < len`) over input in the parsers terminates only if every trip
    round the loop moves the cursor.  For every loop in parsing::, sql::lexer and sql::parser whose guard compares a cursor that the
    body also assigns, no cycle from the loop header back to the header avoids all assignments to that cursor (a `continue` on a path
    that forgets `i += 1` spins forever on the same token)."""
    from model import operand_place, place_fields
    m = ctx.m

    def ident(f, l, depth=5):
        """('l', local) or ('f', field name) the compared value is read from"""
        while depth > 0:
            depth -= 1
            ds = f.defs().get(l, [])
            if len(ds) != 1 or ds[0][0] != "stmt" or ds[0][3][0] != "use":
                return ("l", l)
            q = operand_place(ds[0][3][1])
            if q is None:
                return ("l", l)
            if q[1]:
                fl = place_fields(q)
                return ("f", fl[-1]) if fl else ("l", l)
            l = q[0]
        return ("l", l)
    n = 0
    for f in sorted(m.fns.values(), key=lambda f: f.id):
        if not (f.id.startswith("parsing::") or f.id.startswith("sql::lexer") or f.id.startswith("sql::parser")):
            continue
        loops = f.loops()
        items = list(loops.items()) if isinstance(loops, dict) else list(loops)
        for k, (h, body) in enumerate(sorted(items, key=lambda x: x[0])):
            cands = []
            b, hops = h, 0
            while hops < 6:
                hops += 1
                t = f.blocks[b]["t"]
                if t[0] == "switch" and t[2] == "bool":
                    pl = operand_place(t[1])
                    kk, p, neg = f.origin(pl[0]) if pl and not pl[1] else (None, None, False)
                    if kk == "rvalue" and p[0] == "bin" and p[1] in ("Lt", "Le", "Gt", "Ge", "Ne"):
                        for side in (p[2], p[3]):
                            q = operand_place(side)
                            if q is not None and not q[1]:
                                cands.append(ident(f, q[0]))
                    break
                sc = f.succ(b, unwind=False)
                if len(sc) != 1 or sc[0] not in body:
                    break
                b = sc[0]
            if not cands:
                continue
            stores = {}
            for bb in body:
                for s in f.blocks[bb]["s"]:
                    if s[0] != "=":
                        continue
                    if not s[1][1]:
                        key = ("l", s[1][0])
                    else:
                        fl = place_fields(s[1])
                        key = ("f", fl[-1]) if fl else None
                    if key in cands:
                        stores.setdefault(key, set()).add(bb)
            if not stores:
                continue
            n += 1
            S = set().union(*stores.values())
            seen, st, spin = set(), [x for x in f.succ(h, unwind=False) if x in body], False
            while st:
                b = st.pop()
                if b in seen or b in S:
                    continue
                seen.add(b)
                for x in f.succ(b, unwind=False):
                    if x == h:
                        spin = True
                    elif x in body:
                        st.append(x)
            ctx.ob("R3.LOOP-PROGRESS", "%s#%d" % (f.id.rsplit("::", 2)[-2] + "::" + f.id.rsplit("::", 1)[-1] if f.id.count("::") > 1 else f.id, k), not spin,
                   "every trip round the loop assigns the cursor" if not spin else
                   "the loop at L%s can return to its header without moving its cursor: a `continue` (or fall-through) path forgets the increment and "
                   "the parser spins forever on the same input position" % f.blocks[h].get("l"), "%s:%s" % (f.file, f.blocks[h].get("l")))
    ctx.floor("R3.cursor_loops", n, 5)



def str_slice_offsets(ctx):
    """R4 STR-SLICE-OFFSET: `&s[a..b]` on a str panics when an offset is not a char boundary.  In the SQL scalar functions a SQL
    integer argument is a character position; it must never flow into the range of a str slice (byte offsets come from find / len /
    char_indices on the same string).  Decided per slice site by backward data dependence of the range operands."""
    import dmlrules
    from model import operand_place
    m = ctx.m
    n = 0
    for f in sorted(m.fns.values(), key=lambda f: f.id):
        if not f.id.startswith("sql::functions::"):
            continue
        ints = {c.dest[0] for c in f.calls if c.dest is not None and c.name.rsplit("::", 1)[-1] in ("get_int", "get_i64", "as_int", "to_i64")}
        for c in f.calls:
            if not (c.name.endswith("for str>::index") and "Range" in c.full):
                continue
            n += 1
            q = operand_place(c.args[1]) if len(c.args) > 1 else None
            dep = dmlrules._deps(f, q[0], 300) if q is not None else set()
            bad = bool(dep & ints)
            # SQL integers are i64 and byte offsets usize: a signed-to-usize cast in the dependence closure is the same flow
            # (get_int is usually passed as a function value to and_then, not called directly)
            for l in dep:
                for d in f.defs().get(l, []):
                    if d[0] == "stmt" and d[3][0] == "cast" and d[3][1] == "IntToInt":
                        q2 = operand_place(d[3][2])
                        if q2 is not None and not q2[1] and f.locals[q2[0]] in ("i64", "i32", "i128"):
                            bad = True
            k = "%s@%d" % (f.id.rsplit("::", 1)[-1], len([1 for o in ctx.obs if o["rule"] == "R4.STR-SLICE-OFFSET" and o["key"].startswith(f.id.rsplit("::", 1)[-1] + "@")]))
            ctx.ob("R4.STR-SLICE-OFFSET", k, not bad, "slice offsets do not derive from a SQL integer argument" if not bad else
                   "a SQL integer argument (a character position) is used as a byte offset of a str slice: the slice panics when it lands "
                   "inside a multi-byte character", c.loc())
    ctx.floor("R4.str_slice_sites", n, 2)
