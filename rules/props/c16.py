"""C16 Aggregates and GROUP BY follow SQL semantics — NULL/empty-input clauses of the aggregate state machine only.

sql::state::AggregateState is the one accumulator behind HashAggregate / GROUP BY / HAVING.  Over its two functions:

 G1 EMPTY-IS-NULL       finalize: the arms of SUM, AVG, MIN and MAX can produce Value::Null (that is the only SQL result for an empty or
                        all-NULL input); the COUNT arm never does.
 G1b NULL-BY-WITNESS    finalize: each NULL result of SUM/AVG/MIN/MAX is selected by a test of something other than a value accumulator
                        (a field update() adds input data to): the sum itself cannot tell "no input" from "inputs that cancel".
 G2 COUNT-INSPECTS-ARG  update: COUNT(expr) ignores NULLs, so the COUNT arm must look at the row (read the argument column) unless the
                        function descriptor distinguishes COUNT(*) — an arm that increments unconditionally counts NULLs.
 G3 NULL-IGNORED        update: in the SUM/AVG/MIN/MAX arms every store to the accumulator (including AVG's row count) sits under the
                        Int or Float arm of a match on the argument value: a NULL argument changes nothing.
 G4 ARMS-COMPLETE       both functions have an arm for every AggregateFunction variant.
 G8 EMPTY-GROUP-ONLY-UNGROUPED  the one group an un-grouped aggregate yields over an empty input is created only after every
                        grouping-key field of the hash-aggregate state (group_by, group_by_exprs) has been tested.
Numeric results, grouping keys and HAVING evaluation are NOT decided.
"""
from model import CheckError, operand_place, place_fields
import codec

S = "sql::state::AggregateState::"
ADT = "sql::executor::AggregateFunction"
VAL = "types::value::Value"


def arm_region(f, tgt):
    return {b for b in f.reachable([tgt]) if f.dominates(tgt, b)}


def run(ctx):
    m = ctx.m
    ctx.clause = ("Aggregate state machine: SUM/AVG/MIN/MAX can finalize to NULL and COUNT cannot; COUNT's update looks at its argument; "
                  "accumulator stores of SUM/AVG/MIN/MAX happen only under the Int/Float arms of the argument match; every variant has an arm.")
    upd, fin = m.fn(S + "update"), m.fn(S + "finalize")
    variants = [v["name"] for v in m.adts[ADT]["variants"]]
    su = codec.enum_switches(upd, ADT, m)
    sf = codec.enum_switches(fin, ADT, m)
    if not su or not sf:
        raise CheckError("dispatch on AggregateFunction not found in update/finalize")
    ua = max(su, key=lambda x: len(x[1]))
    fa = max(sf, key=lambda x: len(x[1]))
    for name, arms in (("update", ua), ("finalize", fa)):
        have = set(arms[1])
        # with N variants rustc emits N-1 explicit targets + otherwise
        missing = [v for v in variants if v not in have]
        ok = len(missing) <= 1
        ctx.ob("G4.ARMS-COMPLETE", name, ok, "an arm for every aggregate function" if ok else "%s has no arm for %s" % (name, missing), (upd if name == "update" else fin).loc())

    def target(arms, v):
        return arms[1].get(v, arms[2])
    # G1
    for v in variants:
        reg = arm_region(fin, target(fa, v))
        nulls = [s for b in reg for s in fin.blocks[b]["s"] if s[0] == "=" and s[2][0] == "agg" and s[2][1] == "adt" and s[2][2] == VAL and s[2][3] == "Null"]
        if v == "Count":
            ok = not nulls
            what = "COUNT never finalizes to NULL" if ok else "COUNT can finalize to NULL: an empty input must give 0"
        else:
            ok = bool(nulls)
            what = "%s can finalize to NULL" % v.upper() if ok else \
                   "%s can never finalize to NULL: for an empty or all-NULL input it returns a number where SQL specifies NULL" % v.upper()
        ctx.ob("G1.EMPTY-IS-NULL", v, ok, what, fin.loc())
    # G1b NULL-BY-WITNESS: whether any non-NULL input was seen cannot be recovered from the accumulated value (5 and -5 sum to the
    # same 0 as no input at all).  Every NULL result of SUM/AVG/MIN/MAX is selected by at least one test of something other than a
    # value accumulator (a field that update() adds input data to): a flag, a row count, an Option's discriminant.
    from paths import const_value
    import dmlrules
    accs = set()
    for b in upd.blocks:
        for st in b["s"]:
            if st[0] == "=" and st[2][0] == "bin" and st[2][1].startswith("Add") and const_value(upd, st[2][2]) is None and const_value(upd, st[2][3]) is None:
                for o in (st[2][2], st[2][3]):
                    q = operand_place(o)
                    if q is not None and q[1] and isinstance(q[1][-1], list) and q[1][-1][0] == "f" and q[1][-1][2] and len(q[1]) == 2 and q[1][0] == "*":
                        accs.add(q[1][-1][2])
    from paths import arg_origin, origin_fields
    for c in upd.calls:
        if c.name.endswith("::add_assign") and len(c.args) == 2 and const_value(upd, c.args[1]) is None:
            k_, p_, _ = arg_origin(upd, c, 0)
            for x in origin_fields(upd, k_, p_):
                accs.add(x)
    ctx.stat("G1b.value_accumulators", sorted(accs))
    if not accs:
        raise CheckError("no value accumulator found in update()")
    for v in variants:
        if v == "Count":
            continue
        tgt = target(fa, v)
        reg = arm_region(fin, tgt)
        for b in sorted(reg):
            if not any(st[0] == "=" and st[2][0] == "agg" and st[2][1] == "adt" and st[2][2] == VAL and st[2][3] == "Null" for st in fin.blocks[b]["s"]):
                continue
            tests = []
            for sb in sorted(reg):
                t = fin.blocks[sb]["t"]
                if t[0] != "switch" or sb == b or not fin.dominates(sb, b):
                    continue
                q = operand_place(t[1])
                if q is None:
                    continue
                flds = dmlrules._data_fields(fin, q[0]) | set(place_fields(q))
                for d in fin.defs().get(q[0], []):
                    if d[0] == "stmt" and d[3][0] == "disc":
                        flds |= {"discriminant of " + x for x in place_fields(d[3][1])} or {"discriminant"}
                tests.append(sorted(flds))
            witness = [t_ for t_ in tests if set(t_) - accs]
            ok = bool(witness)
            ctx.ob("G1b.NULL-BY-WITNESS", v, ok, "NULL is selected by a test of %s" % (witness[0] if ok else None) if ok else
                   "%s finalizes to NULL on tests of the accumulated value alone (%s): inputs that sum/compare to that value (5 and -5; a single 0) "
                   "are reported as NULL, and HAVING drops their groups" % (v.upper(), tests), "%s:%s" % (fin.file, fin.blocks[b].get("l")))
    # G2
    reg = arm_region(upd, target(ua, "Count"))
    reads = [c for c in upd.calls if c.bb in reg and (c.name.endswith("ExecutorRow::<'a>::get") or c.name.endswith("ExecutorRow::get") or "is_null" in c.name)]
    ok2 = bool(reads)
    ctx.ob("G2.COUNT-INSPECTS-ARG", "update", ok2, "the COUNT arm reads its argument" if ok2 else
           "the COUNT arm increments without looking at the row: COUNT(expr) counts rows whose expr is NULL", upd.loc())
    # G3
    vs = codec.enum_switches(upd, VAL, m)
    for v in variants:
        if v == "Count":
            continue
        reg = arm_region(upd, target(ua, v))
        stores = []
        for b in reg:
            for s in upd.blocks[b]["s"]:
                if s[0] == "=" and s[1][1] and any(x.startswith("sql::state::AggregateState::") for x in place_fields(s[1])):
                    stores.append((b, s))
        # `self.sum += i` with i: &i64 is a call <i64 as AddAssign<&i64>>::add_assign(&mut self.sum, i)
        for c in upd.calls:
            if c.bb in reg and c.args and (c.name.endswith("::add_assign") or c.name.endswith("::sub_assign") or c.name.endswith("::mul_assign")):
                pl = operand_place(c.args[0])
                if pl is not None:
                    ds = upd.defs().get(pl[0], [])
                    if len(ds) == 1 and ds[0][0] == "stmt" and ds[0][3][0] == "ref" and any(
                            x.startswith("sql::state::AggregateState::") for x in place_fields(ds[0][3][2])):
                        stores.append((c.bb, ["call", None, None, c.line]))
        good_targets = []
        for bb, arms, other in vs:
            if bb in reg:
                for nm in ("Int", "Float"):
                    if nm in arms:
                        good_targets.append(arms[nm])
        bad = [(b, s) for b, s in stores if not any(upd.dominates(t, b) for t in good_targets)]
        ok = bool(stores) and not bad
        ctx.ob("G3.NULL-IGNORED", v, ok, "%d accumulator store(s), all under the Int/Float arms of the argument match" % len(stores) if ok else
               ("%s stores to the accumulator (L%s) outside the Int/Float arms of the argument match: a NULL argument changes the result"
                % (v.upper(), bad[0][1][3]) if bad else "no accumulator store found in the %s arm" % v), upd.loc())
    # G5: the header shortcut answers COUNT(*) only — it has to look at the aggregate's argument
    hs = [f for f in m.fns.values() if f.kind != "closure" and f.id.endswith("query::helpers::is_simple_count_star")]
    if len(hs) != 1:
        raise CheckError("is_simple_count_star: %d candidates" % len(hs))
    h = hs[0]
    reads_arg = any("AggregateExpr::argument" in x for b in h.blocks for s in b["s"] if s[0] == "=" for x in _fields_in(s))
    reads_distinct = any("AggregateExpr::distinct" in x for b in h.blocks for s in b["s"] if s[0] == "=" for x in _fields_in(s))
    ctx.ob("G5.COUNT-STAR-SHORTCUT", "is_simple_count_star", reads_arg and reads_distinct,
           "the row-count shortcut is taken only after inspecting the aggregate's argument and DISTINCT flag" if reads_arg and reads_distinct else
           "the table-header row-count shortcut does not look at the aggregate's %s: COUNT(column) is answered with the number of rows, NULLs included"
           % ("argument" if not reads_arg else "DISTINCT flag"), h.loc())
    group_key_positional(ctx)
    unique_is_not_notnull(ctx)
    empty_group_only_ungrouped(ctx)


def _fields_in(s):
    out = []
    def walk(x):
        if isinstance(x, list):
            if len(x) == 3 and x[0] == "f" and isinstance(x[2], str):
                out.append(x[2])
            for y in x:
                walk(y)
    walk(s)
    return out


def group_key_positional(ctx):
    """G6 GROUP-KEY-POSITIONAL: the byte key that buckets rows for GROUP BY is the concatenation of one self-delimiting encoding per
    grouping column.  Every column value that is read is encoded — NULL included (it has its own type prefix): if a NULL contributes no
    bytes, (NULL, v) and (v, NULL) collide into one group."""
    m = ctx.m
    n = 0
    for name in ("sql::util::compute_group_key_for_dynamic", "sql::util::compute_group_key_from_exprs"):
        if name not in m.fns:
            continue
        f = m.fn(name)
        group = [f]
        enc = [c for c in f.calls if c.name.endswith("::encode_to_key")]
        loops = f.loops()
        items = list(loops.items()) if isinstance(loops, dict) else list(loops)
        n += 1
        ok, why = bool(enc) and bool(items), "no encode_to_key call inside a loop"
        if ok:
            h, body = min([(h, b) for h, b in items if any(c.bb in b for c in enc)] or [(None, set())], key=lambda x: len(x[1]))
            if h is None:
                ok = False
            else:
                # from every Option::Some edge inside the body (a value was obtained) the header must not be reachable around the encode
                somes = []
                for b in body:
                    t = f.blocks[b]["t"]
                    if t[0] == "switch" and t[2] != "bool":
                        pl = operand_place(t[1])
                        ds = f.defs().get(pl[0], []) if pl else []
                        if ds and ds[0][0] == "stmt" and ds[0][3][0] == "disc" and f.locals[ds[0][3][1][0]].startswith("std::option::Option<") and "types::value::Value" in f.locals[ds[0][3][1][0]]:
                            somes += [x[1] for x in t[3] if x[0] == 1]
                blocked = {c.bb for c in enc}
                skip = False
                for s0 in somes:
                    seen, st = set(), [s0]
                    while st:
                        b = st.pop()
                        if b in seen or b in blocked:
                            continue
                        seen.add(b)
                        for s in f.succ(b, unwind=False):
                            if s == h:
                                skip = True
                            elif s in body:
                                st.append(s)
                ok = bool(somes) and not skip
                why = "a grouping column value can be read without contributing bytes to the group key" if somes else "value read not recognised"
        ctx.ob("G6.GROUP-KEY-POSITIONAL", name.rsplit("::", 1)[-1], ok, "every value read is encoded into the key (NULL has its own prefix)" if ok else
               "%s: %s — rows whose NULLs sit in different grouping columns fall into one group" % (name.rsplit("::", 1)[-1], why), f.loc())
    ctx.floor("G6.group_key_builders", n, 1)


def unique_is_not_notnull(ctx):
    """G7 UNIQUE≠NOT-NULL: the row-count shortcut (and anything it calls) may reason "this column can never be NULL" only from NOT NULL /
    PRIMARY KEY.  A UNIQUE column is nullable (several NULLs are accepted), so a match on schema::table::Constraint that sends the
    Unique arm where the NotNull arm goes, inside the shortcut's call closure, answers COUNT(col) with the NULLs included."""
    m = ctx.m
    root = [f for f in m.fns.values() if f.kind != "closure" and f.id.endswith("query::helpers::is_simple_count_star")][0]
    seen, st = set(), [root.key]
    while st:
        k = st.pop()
        if k in seen or k not in m.fns:
            continue
        seen.add(k)
        f = m.fns[k]
        for c in f.calls:
            if c.name in m.fns and (c.name.startswith("database::query::") or c.name.startswith(f.id.rsplit("::", 1)[0])):
                st.append(c.name)
        for g in m.fns.values():
            if g.kind == "closure" and g.id.startswith(f.id + "::{closure"):
                st.append(g.key)
    bad = None
    n = 0
    for k in seen:
        f = m.fns[k]
        for bb, arms, other in codec.enum_switches(f, "schema::table::Constraint", m):
            n += 1
            nn = arms.get("NotNull", other)
            un = arms.get("Unique", other)
            if "NotNull" in arms and un == nn:
                bad = f
    ctx.stat("G7.constraint_matches_in_shortcut", n)
    ctx.ob("G7.UNIQUE-IS-NOT-NOT-NULL", "is_simple_count_star", bad is None, "the shortcut never equates UNIQUE with NOT NULL" if bad is None else
           "%s treats Constraint::Unique like Constraint::NotNull while deciding whether COUNT(col) may be answered from the table's row count: "
           "a nullable UNIQUE column is counted with its NULLs" % bad.id.rsplit("::", 1)[-1], (bad or root).loc())


def empty_group_only_ungrouped(ctx):
    """G8 EMPTY-GROUP-ONLY-UNGROUPED: over an empty input an aggregate without GROUP BY yields one row, with GROUP BY none.  The hash
    aggregate creates that one group (create_initial_states under a `groups.is_empty()` test) only after testing every field of its
    state that carries grouping keys (the fields of HashAggregateState named group_by*): a query grouped by an expression has an
    empty `group_by` column list and its keys in `group_by_exprs`."""
    import dmlrules
    m = ctx.m
    adt = m.adts.get("sql::state::HashAggregateState")
    if not adt:
        raise CheckError("HashAggregateState not found")
    keys = sorted(f_[0] for f_ in adt["variants"][0]["fields"] if f_[0].startswith("group_by"))
    if len(keys) < 2:
        raise CheckError("grouping-key fields of HashAggregateState: %s" % keys)
    n = 0
    for f in sorted(m.fns.values(), key=lambda f: f.id):
        for c in f.calls:
            if not c.name.endswith("AggregateState::create_initial_states"):
                continue
            tested = set()
            for d in f.dominators().get(c.bb, ()):
                t = f.blocks[d]["t"]
                if t[0] == "switch" and t[2] == "bool" and d != c.bb:
                    q = operand_place(t[1])
                    if q is not None:
                        tested |= {x.rsplit("::", 1)[-1] for x in dmlrules._data_fields(f, q[0])}
            if "groups" not in tested:
                continue     # a group created for an input row, not the empty-input group
            n += 1
            missing = [k for k in keys if k not in tested]
            ctx.ob("G8.EMPTY-GROUP-ONLY-UNGROUPED", "%s@L%d" % (f.id.rsplit("::", 1)[-1], n), not missing,
                   "the empty-input group is created only after testing %s" % keys if not missing else
                   "the empty-input group is created without testing %s: a query grouped by those keys returns a phantom row over an empty "
                   "input" % missing, c.loc())
    ctx.floor("G8.empty_input_group_sites", n, 1)
