"""C14 WHERE filtering follows SQL three-valued logic — structural clauses of the predicate evaluator (sql::predicate).

A filter keeps a row only when the predicate is TRUE; "unknown" (NULL) must survive NOT, AND, OR and the comparison operators
as NULL until the filter rejects it.  Over CompiledPredicate's evaluator:

 W1 NOT-HAS-ARM       eval_expr (the filter entry) has an explicit arm for Expr::UnaryOp: NOT must not fall into the catch-all arm,
                      which passes every row.
 W2 CAN-YIELD-NULL    every three-valued operator can produce NULL: the comparison arm and the AND / OR arms of eval_binary_op, the
                      NOT arm of eval_unary_op, and the IN / BETWEEN / LIKE arms of eval_value each construct Value::Null on some path.
                      An operator that can only answer 0 or 1 turns unknown into FALSE, and NOT then turns it into TRUE.
 W3 NULL-NEVER-EQUAL  compare_values never manufactures Ordering::Equal as a constant (NULL = NULL is not TRUE).
 W4 FILTER-TRUE-ONLY  eval_expr turns a value into the filter decision only through `Int(n) => n != 0`: its leaf arm region yields
                      constant false for everything else (NULL is rejected).
Truth tables over actual values (numeric comparison, LIKE matching, IN with subqueries) are NOT decided.
"""
from model import CheckError
import codec

P = "sql::predicate::CompiledPredicate::<'a>::"
VAL = "types::value::Value"


def region(f, tgt):
    return {b for b in f.reachable([tgt]) if f.dominates(tgt, b)}


def makes_null(f, blocks):
    return any(s[0] == "=" and s[2][0] == "agg" and s[2][1] == "adt" and s[2][2] == VAL and s[2][3] == "Null"
               for b in blocks for s in f.blocks[b]["s"])


def run(ctx):
    m = ctx.m
    ctx.clause = ("Predicate evaluator: NOT has its own arm in the filter entry; comparison, AND, OR, NOT, IN, BETWEEN and LIKE can each "
                  "evaluate to NULL; NULL never compares equal; only a non-zero integer passes the filter.")
    ee, ev, eb, eu, cv = (m.fn(P + n) for n in ("eval_expr", "eval_value", "eval_binary_op", "eval_unary_op", "compare_values"))
    # W1
    sw = codec.enum_switches(ee, "sql::ast::Expr", m)
    if not sw:
        raise CheckError("dispatch on Expr not found in eval_expr")
    bb, arms, other = max(sw, key=lambda x: len(x[1]))
    ok = "UnaryOp" in arms and arms["UnaryOp"] != other
    ctx.ob("W1.NOT-HAS-ARM", "eval_expr", ok, "Expr::UnaryOp has its own arm in the filter entry" if ok else
           "Expr::UnaryOp falls into eval_expr's catch-all arm: WHERE NOT (...) keeps every row", ee.loc())
    # W4: the arm that handles the leaf predicates converts through Int(n) != 0 and otherwise false
    if ok:
        reg = region(ee, arms["UnaryOp"])
        vsw = [x for x in codec.enum_switches(ee, VAL, m) if x[0] in reg] if False else None
        consts = [s for b in reg for s in ee.blocks[b]["s"] if s[0] == "=" and s[1][0] == 0 and s[2][0] == "use" and s[2][1][0] == "k"]
        false_only = bool(consts) and all(s[2][1][4] == 0 for s in consts)
        ne = any(s[0] == "=" and s[2][0] == "bin" and s[2][1] == "Ne" for b in reg for s in ee.blocks[b]["s"])
        ctx.ob("W4.FILTER-TRUE-ONLY", "eval_expr", false_only and ne, "a value passes the filter only as Int(n) with n != 0; everything else is rejected" if false_only and ne else
               "the leaf arm of the filter can answer constant true (or does not test n != 0): NULL / unknown would pass", ee.loc())
    # W2
    bsw = codec.enum_switches(eb, "sql::ast::BinaryOperator", m)
    if not bsw:
        raise CheckError("dispatch on BinaryOperator not found in eval_binary_op")
    _, barms, bother = max(bsw, key=lambda x: len(x[1]))
    groups = {"comparison": ["Eq", "NotEq", "Lt", "LtEq", "Gt", "GtEq"], "AND": ["And"], "OR": ["Or"]}
    for g, names in groups.items():
        tg = {barms.get(n, bother) for n in names}
        okg = all(makes_null(eb, region(eb, t)) for t in tg)
        ctx.ob("W2.CAN-YIELD-NULL", g, okg, "%s can evaluate to NULL" % g if okg else
               "%s can only answer 0 or 1: with a NULL operand it answers FALSE, and NOT over it answers TRUE" % g, eb.loc())
    usw = codec.enum_switches(eu, "sql::ast::UnaryOperator", m)
    if not usw:
        raise CheckError("dispatch on UnaryOperator not found in eval_unary_op")
    _, uarms, uother = max(usw, key=lambda x: len(x[1]))
    okn = makes_null(eu, region(eu, uarms.get("Not", uother)))
    ctx.ob("W2.CAN-YIELD-NULL", "NOT", okn, "NOT NULL is NULL" if okn else "NOT cannot evaluate to NULL", eu.loc())
    vsw = codec.enum_switches(ev, "sql::ast::Expr", m)
    if not vsw:
        raise CheckError("dispatch on Expr not found in eval_value")
    _, varms, vother = max(vsw, key=lambda x: len(x[1]))
    for name in ("InList", "Between", "Like"):
        t = varms.get(name)
        okv = t is not None and makes_null(ev, region(ev, t))
        ctx.ob("W2.CAN-YIELD-NULL", name, okv, "%s can evaluate to NULL" % name if okv else
               "%s can only answer 0 or 1: a NULL operand gives FALSE and its negation TRUE (NOT IN / NOT BETWEEN / NOT LIKE return rows whose "
               "operand is NULL)" % name, ev.loc())
    # W3
    bad = []
    for b in cv.blocks:
        for s in b["s"]:
            if s[0] == "=" and s[2][0] == "agg" and s[2][1] == "adt" and s[2][2] == "std::option::Option" and s[2][3] == "Some":
                for op in s[2][4]:
                    if op[0] == "k" and "Equal" in str(op):
                        bad.append(s[3])
            if s[0] == "=" and s[2][0] == "use" and s[2][1][0] == "k" and "Ordering" in str(s[2][1][2]) and "Equal" in str(s[2][1]):
                bad.append(s[3])
            if s[0] == "=" and s[2][0] == "agg" and s[2][1] == "adt" and s[2][2] == "std::cmp::Ordering" and s[2][3] == "Equal":
                bad.append(s[3])
    ctx.ob("W3.NULL-NEVER-EQUAL", "compare_values", not bad, "no constant Ordering::Equal: equality is always computed from two non-NULL values" if not bad else
           "compare_values manufactures Ordering::Equal as a constant (L%s): NULL = NULL evaluates to TRUE" % bad[0], cv.loc())
    truthiness_with_null_test(ctx)


def truthiness_with_null_test(ctx):
    """W5 TRUTHINESS-NEEDS-NULL-TEST: value_to_bool maps NULL to false, which is right only for the final filter decision.  Wherever an
    operator's *value* is derived from it (AND/OR in value context), the same match arm also has to look at the operand's NULL-ness
    (a discriminant read of a Value); otherwise NULL AND q is answered FALSE instead of NULL and NOT turns it into TRUE."""
    m = ctx.m
    n = 0
    for f in sorted(m.fns.values(), key=lambda f: f.id):
        if not f.id.startswith(P) or f.kind == "closure":
            continue
        calls = [c for c in f.calls if c.name == P + "value_to_bool"]
        if not calls:
            continue
        for k, c in enumerate(calls):
            n += 1
            # innermost match arm (target of a non-bool switch) that dominates the call
            best = None
            for d in f.dominators().get(c.bb, ()):
                t = f.blocks[d]["t"]
                if t[0] == "switch" and t[2] != "bool":
                    for _, tgt in t[3]:
                        if f.dominates(tgt, c.bb) and (best is None or f.dominates(best, tgt)):
                            best = tgt
                    if f.dominates(t[4], c.bb) and (best is None or f.dominates(best, t[4])):
                        best = t[4]
            reg = region(f, best) if best is not None else set(range(len(f.blocks)))
            null_test = False
            for b in reg:
                for s in f.blocks[b]["s"]:
                    if s[0] == "=" and s[2][0] == "disc":
                        ty = f.locals[s[2][1][0]]
                        if "types::value::Value" in ty and "Option<" not in ty.split("types::value::Value")[0][-8:]:
                            null_test = True
            ctx.ob("W5.TRUTHINESS-NEEDS-NULL-TEST", "%s#%d" % (f.id.rsplit("::", 1)[-1], k), null_test,
                   "truthiness is taken in an arm that also inspects the operand's variant" if null_test else
                   "%s decides an operator's value from value_to_bool (NULL counts as false) in an arm that never looks at the operand's NULL-ness: "
                   "NULL AND q / NULL OR q lose their unknown result" % f.id.rsplit("::", 1)[-1], c.loc())
    ctx.floor("W5.truthiness_sites", n, 2)
