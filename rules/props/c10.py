"""C10 Indexes never change query results — structural clauses.

 X1 INDEX-SIBLINGS   every entry point that changes an indexed row reaches index maintenance (B-tree index storage) and HNSW
                     maintenance: SQL INSERT / UPDATE / DELETE and the cached/bulk insert paths.  One obligation per cell.
 X2 DELETE-THEN-INSERT in UPDATE's index maintenance loops the old entry is removed before the new one is inserted.
 X3 UNDO-ORDER        write entries are undone newest-first.
 X5 FASTPATH-GUARD   a region of UPDATE/DELETE that rewrites the row and returns Ok without reaching index maintenance must be guarded
                      by a condition that depends on the secondary-index collection (data or control dependence).
 X6 INDEX-VALUE       the value stored with an index entry never derives from a column value (it is the row key).
 X4 KEY-SUFFIX        every function that builds multi-column index keys outside INSERT consults IndexDef::is_unique (INSERT stores
                      non-unique entries under encode(cols) || row_key, unique ones under encode(cols)).
Result equality between index scans and table scans is NOT decided.
"""
import dmlrules

TOLERATED = {
    "insert_cached:hnsw": "not demonstrated", "insert_batch:hnsw": "not demonstrated", "bulk_insert:hnsw": "not demonstrated",
    "update_from:hnsw": "not demonstrated",
}


def run(ctx):
    ctx.clause = ("Index maintenance: every row-changing entry point reaches B-tree index and HNSW maintenance; UPDATE deletes the old "
                  "key before inserting the new one; rollback undoes newest-first.")
    req = {k: ["index", "hnsw"] for k in ("insert", "update", "update_cached", "update_from", "delete", "insert_cached", "insert_batch", "bulk_insert")}
    n = dmlrules.sib_matrix(ctx, "X1.INDEX-SIBLINGS", req, TOLERATED)
    ctx.floor("matrix_cells", n, 14)
    dmlrules.index_delete_before_insert(ctx, "X2.DELETE-THEN-INSERT", [dmlrules.ENTRIES["update"]])
    dmlrules.undo_newest_first(ctx, "X3.UNDO-ORDER")
    dmlrules.index_key_suffix_rule(ctx, "X4.KEY-SUFFIX", dmlrules.KEY_SUFFIX_TOLERATED)
    n5 = dmlrules.fastpath_guard_depends(ctx, "X5.FASTPATH-GUARD")
    ctx.floor("X5.fast_paths", n5, 1)
    dmlrules.index_value_is_row_key(ctx, "X6.INDEX-VALUE")
    dmlrules.undo_restores_entry(ctx, "X7.UNDO-RESTORES-ENTRY")
    dmlrules.modified_set_complete(ctx, "X8.MODIFIED-SET-COMPLETE")
    dmlrules.key_cleared_per_row(ctx, "X9.KEY-CLEARED-PER-ROW")
