"""C38 Concurrent commits log page images in commit order — lock-scope and coverage clauses.

 L1 CAPTURE-APPEND-ATOMIC  in every commit routine that captures page images (drains the dirty tracker / copies pages) and then
                           appends them to the log (directly or through the group-commit queue), one lock guard is held from
                           before the capture until after the append.  Otherwise a committer that captured earlier can append
                           later, and replay ends with the older image.  (execute_chunked_wal_commit is the conforming sibling.)
 L2 INDEX-LOGGED           every index B-tree mutation of a SQL DML entry point goes through the dirty-tracking WAL wrapper
                           (BTree over WalStoragePerTable), as the table mutations of the same entry do under WAL.
 L3 QUEUE-ORDER            the group-commit queue is FIFO end to end: submit pushes at the back, take_pending drains from the front,
                           the flush walks the batch in order (no rev / sort / pop_back / swap_remove).
 L4 FLUSH-UNDER-WAL-LOCK   the group flush appends the whole batch under one WAL mutex guard.
 L5 PAYLOAD-COMPLETE       no lossy iterator adaptor (filter / dedup / take / ...) between a queued payload and the append.
 L5b EVERY-ITEM-FORWARDED  every iteration of the group-flush loops forwards its commit / frame: no path from the "next item" arm
                           back to the loop header avoids the forwarding call (no conditional skip of an "already seen" page).
Actual interleavings are NOT explored; L1/L2 hits are demonstrated with a forced schedule / a crash image (see findings/).
"""
from model import CheckError, operand_place
from paths import arg_origin, origin_fields
import common, dmlrules

T = "database::transaction::<impl database::database::Database>::"
LOCKS = ("Mutex::<R, T>::lock", "RwLock::<R, T>::write", "RwLock::<R, T>::read")


def base_local(f, local, depth=6):
    while depth > 0:
        depth -= 1
        ds = f.defs().get(local, [])
        if len(ds) != 1 or ds[0][0] != "stmt":
            return local
        rv = ds[0][3]
        if rv[0] == "use" and rv[1][0] in ("m", "c") and not rv[1][1][1]:
            local = rv[1][1][0]
            continue
        return local
    return local


def drop_blocks(f, local):
    out = []
    for bb, b in enumerate(f.blocks):
        t = b["t"]
        if t[0] == "drop" and t[1][0] == local and not b.get("c"):
            out.append(bb)
    for c in f.calls:
        if c.name.startswith("std::mem::drop") or c.name.startswith("core::mem::drop"):
            pl = operand_place(c.args[0]) if c.args else None
            if pl and not pl[1] and base_local(f, pl[0]) == local:
                out.append(c.bb)
    return out


def guard_live_across(f, lock, sites):
    """lock dominates every site and the guard cannot have been dropped when a site executes"""
    if not all(f.dominates(lock.bb, s) for s in sites):
        return False
    gl = lock.dest[0]
    for d in drop_blocks(f, gl):
        if d == lock.bb:
            continue
        after = f.reachable([d])
        if any(s in after and s != d for s in sites):
            return False
    return True


def is_capture(c):
    n = c.name
    return (n.endswith("ShardedDirtyTracker::drain_for_table") or n.endswith("ShardedDirtyTracker::drain_all")
            or n.endswith("::collect_pages_for_table"))


def is_append(c):
    n = c.name
    return (n.endswith("::write_payload_to_wal") or n.endswith("Wal::write_frames_batch") or n.endswith("Wal::write_frames_batch_no_sync")
            or n.endswith("Wal::write_frame") or n.endswith("GroupCommitQueue::submit_and_wait") or n.endswith("GroupCommitQueue::submit_async"))


def run(ctx):
    m = ctx.m
    ctx.clause = ("Commit lock scope: one guard covers capture and append in every commit routine; index B-tree mutations of SQL DML go "
                  "through the WAL wrapper; the group-commit queue is FIFO and flushed under one WAL guard.")
    n = 0
    for f in sorted(m.fns.values(), key=lambda f: f.id):
        if f.kind == "closure" or not f.id.startswith("database::"):
            continue
        caps = [c for c in f.calls if is_capture(c)]
        apps = [c for c in f.calls if is_append(c)]
        if not caps or not apps:
            continue
        n += 1
        short = f.id.rsplit("::", 1)[-1]
        locks = [c for c in f.calls if any(c.name.endswith(x) for x in LOCKS) and c.dest is not None]
        sites = [c.bb for c in caps + apps]
        cover = [l for l in locks if guard_live_across(f, l, sites)]
        ok = bool(cover)
        ctx.ob("L1.CAPTURE-APPEND-ATOMIC", short, ok,
               "guard taken at L%d is held across %d capture and %d append site(s)" % (cover[0].line, len(caps), len(apps)) if ok else
               "no lock guard is held from the capture (L%d) to the append (L%d): a committer that captured an older image of a page can "
               "append it after a committer that captured a newer one, and replay restores the older image" % (caps[0].line, apps[-1].line), f.loc())
    ctx.floor("L1.commit_routines", n, 2)
    # L2
    common.unwrapped_mutations(ctx, "L2.MUTATION-LOGGED")
    # L3
    G = "database::group_commit::GroupCommitQueue::"
    BAD = ("::rev", "::sort", "::sort_by", "::sort_unstable", "::sort_by_key", "::pop_back", "::swap_remove", "::swap_remove_back", "::push_front", "::reverse")
    for fid, need in ((G + "submit_and_wait", "push_back"), (G + "submit_async", "push_back"), (G + "take_pending", "drain"),
                      (T + "execute_group_wal_flush", None)):
        f = m.fn(fid)
        group = [f] + list(common.all_closures(m, f))
        bad = [c for g in group for c in g.calls if any(c.name.endswith(b) for b in BAD)]
        has = need is None or any(c.name.endswith("::" + need) for g in group for c in g.calls)
        ctx.ob("L3.QUEUE-ORDER", fid.rsplit("::", 1)[-1], not bad and has, "FIFO preserved" if not bad and has else
               "queue order is not preserved (%s)" % (bad[0].name.rsplit("::", 1)[-1] if bad else "no %s" % need), f.loc())
    # L5: every captured frame of every queued commit is appended — no lossy adaptor between the payload and the log
    LOSSY = ("filter", "filter_map", "skip", "skip_while", "take", "take_while", "step_by", "dedup", "dedup_by", "dedup_by_key", "retain",
             "truncate", "chunks_exact", "rchunks_exact", "nth", "last", "first", "max_by_key", "min_by_key")
    for fid in (T + "execute_group_wal_flush", T + "write_payload_to_wal"):
        f = m.fn(fid)
        group = [f] + list(common.all_closures(m, f))
        lossy = [c for g in group for c in g.calls if c.name.rsplit("::", 1)[-1] in LOSSY and
                 ("Iterator" in c.name or "iter::" in c.name or "slice" in c.name or "Vec" in c.name or "SmallVec" in c.name)]
        apps = [c for g in group for c in g.calls if is_append(c)]
        ctx.ob("L5.PAYLOAD-COMPLETE", fid.rsplit("::", 1)[-1], not lossy and bool(apps), "every queued frame is appended (%d append site(s))" % len(apps) if not lossy and apps else
               "the payload passes through %s before it is appended: frames of a committed transaction are dropped from the log (a later commit's "
               "image of a page is lost when an earlier one in the batch is kept)" % (lossy[0].name.rsplit("::", 1)[-1] if lossy else "no append"),
               (lossy[0] if lossy else f).loc() if lossy else f.loc())
    # L5b EVERY-ITEM-FORWARDED: in the loops of the group flush that hand commits / frames on (to the WAL, to write_payload_to_wal, or
    # into the buffer that is appended), the forwarding call runs on every iteration: no path from the loop's "next item" arm back to
    # the loop header avoids it.  A conditional skip (a page "already seen" in this batch) drops a committed transaction's image.
    from paths import exhausted_edges, switch_cond_origin
    n5b = 0
    for fid in (T + "execute_group_wal_flush", T + "write_payload_to_wal"):
        f0 = m.fn(fid)
        for f in [f0] + list(common.all_closures(m, f0)):
            fwd_bbs = {c.bb for c in f.calls if is_append(c) or c.name.endswith("Vec::<T, A>::push") or c.name.endswith("Vec::<T>::push")
                       or c.name.rsplit("::", 1)[-1] in ("extend", "extend_from_slice", "push_back")}
            loops = dict((h, set(b)) for h, b in f.loops())
            for (sw, exit_t), h in exhausted_edges(f).items():
                body = loops.get(h, set())
                inside = fwd_bbs & body
                if not inside:
                    continue
                n5b += 1
                some = [t for t in f.succ(sw, unwind=False) if t != exit_t and t in body]
                # blocks reachable from the Some arm, inside the body, without passing a forwarding block
                seen_, st = set(), [b for b in some if b not in inside]
                skip = False
                while st:
                    b = st.pop()
                    if b in seen_:
                        continue
                    seen_.add(b)
                    nxs = f.succ(b, unwind=False)
                    t_ = f.blocks[b]["t"]
                    if t_[0] == "switch" and t_[2] == "bool":
                        o_ = switch_cond_origin(f, b)
                        if o_ and o_[0] == "call" and o_[1] is not None and o_[1].name.rsplit("::", 1)[-1] == "is_empty":
                            # skipping an item that is empty forwards nothing less: follow only the non-empty arm
                            false_t = [x[1] for x in t_[3] if x[0] == 0] or [t_[4]]
                            true_t = [x[1] for x in t_[3] if x[0] == 1] or [t_[4]]
                            nxs = true_t if o_[2] else false_t
                    for nx in nxs:
                        if nx == h:
                            skip = True
                        elif nx in body and nx not in inside:
                            st.append(nx)
                ctx.ob("L5b.EVERY-ITEM-FORWARDED", "%s#%d" % (f.id.rsplit("::", 1)[-1], n5b), not skip, "the loop forwards every item" if not skip else
                       "an iteration of the flush loop can return to the loop header without forwarding its item (a frame or commit is skipped "
                       "conditionally): a later commit's image of a page is dropped from the log while its COMMIT reports success",
                       "%s:%s" % (f.file, f.blocks[h].get("l")))
    ctx.floor("L5b.forwarding_loops", n5b, 1)
    # L4
    f = m.fn(T + "execute_group_wal_flush")
    apps = [c for c in f.calls if is_append(c)]
    locks = [c for c in f.calls if c.name.endswith("Mutex::<R, T>::lock") and c.dest is not None]
    ok = bool(apps) and any(guard_live_across(f, l, [c.bb for c in apps]) for l in locks)
    ctx.ob("L4.FLUSH-UNDER-WAL-LOCK", "execute_group_wal_flush", ok, "whole batch appended under one WAL guard" if ok else
           "the batch is not appended under one WAL mutex guard: frames of concurrent flushes interleave", f.loc())


def index_tree(g, c):
    """the BTree receiver of call c was constructed (BTree::new) over a storage that comes from index_data_mut / index_data"""
    from paths import source_call
    pl = operand_place(c.args[0]) if c.args else None
    if pl is None:
        return False
    loc = pl[0]
    seen = 0
    src = source_call(g, loc)
    while src is not None and seen < 8:
        seen += 1
        n = src.name
        if n.endswith("FileManager::index_data_mut") or n.endswith("FileManager::index_data"):
            return True
        if n.endswith("FileManager::table_data_mut") or n.endswith("FileManager::table_data"):
            return False
        if not src.args:
            return False
        q = operand_place(src.args[0])
        if q is None:
            return False
        src = source_call(g, q[0])
    return False
