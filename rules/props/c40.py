"""C40 Catalog persistence round-trips and survives crashes during DDL — structural clauses.

 A  ATOMIC-REPLACE   CatalogPersistence::save never opens the live path for writing; it writes a new file, syncs it (after
                     flushing any user-space buffer), then renames it onto the live path (sync dominates the rename).
 M  META-SYNC        save_meta's page write is followed by sync_all on every success path.
 W  CODEC            per serialize_X/deserialize_X pair the integer fields written and read agree in width and byte order;
                     the DataType byte table is the identity on discriminants and complete; Constraint tags and
                     ReferentialAction codes decode to the variant that wrote them.
 S  SCHEMA-RESTORE   a schema not pre-created by Catalog::new is restored when the catalog is loaded.
Equality of the reloaded catalog as a value is NOT decided.
"""
import persist


def run(ctx):
    ctx.clause = ("Catalog file: atomic replace (tmp, flush, fsync, rename) instead of in-place truncation; meta page synced; "
                  "writer/reader tables agree (widths, byte order, DataType bytes, Constraint tags, referential actions); "
                  "user schemas restored on load.")
    persist.atomic_replace(ctx, "A")
    persist.meta_sync(ctx, "M.META-SYNC")
    persist.width_tables(ctx, "W")
    persist.tag_tables(ctx, "W")
    persist.schema_restore(ctx, "S.SCHEMA-RESTORE")
