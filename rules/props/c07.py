"""C07 ROLLBACK and ROLLBACK TO SAVEPOINT restore the earlier state — structural clauses.

 K1 RESET-FIELDS   ActiveTransaction::rollback_to_savepoint updates every bookkeeping field take_write_entries resets, and the
                   parallel logs (write_entries / undo_data) are drained together.
 K2 UNDO-ORDER     write entries are undone newest-first.
 K3 LOG-PAIRED     every function that pushes to ActiveTransaction.write_entries also pushes to undo_data (the two logs stay
                   index-aligned).
 K4 DROP-ABORTS    dropping a Database handle with an open transaction reaches abort_active_transaction -> undo_write_entries.
 K5 ROLLBACK-UNDOES ROLLBACK and ROLLBACK TO both must-pass undo_write_entries before Ok.
What the undo restores (index keys, row counts, HNSW) is NOT decided here.
"""
import dmlrules, common
from paths import must_pass, describe_path, call_named
from model import place_fields

AT = "database::transaction::ActiveTransaction::"


def run(ctx):
    m = ctx.m
    ctx.clause = ("Transaction undo shape: bookkeeping reset on ROLLBACK TO equals that of full rollback; newest-first undo; parallel "
                  "logs pushed together; handle drop aborts; both rollback forms pass undo_write_entries.")
    dmlrules.txn_reset_fields(ctx, "K1.RESET-FIELDS")
    dmlrules.undo_newest_first(ctx, "K2.UNDO-ORDER")
    n = 0
    for f in sorted(m.fns.values(), key=lambda f: f.id):
        if not f.id.startswith(AT):
            continue
        pushes = {"write_entries": 0, "undo_data": 0}
        for b in f.blocks:
            for s in b["s"]:
                if s[0] == "=" and s[2][0] == "ref" and s[2][1]:
                    for x in place_fields(s[2][2]):
                        for k in pushes:
                            if x.endswith("ActiveTransaction::" + k):
                                pushes[k] += 1
        adds = [c for c in f.calls if c.name.rsplit("::", 1)[-1] in ("push", "extend", "extend_from_slice", "append")]
        if not adds or not (pushes["write_entries"] or pushes["undo_data"]):
            continue
        n += 1
        ok = bool(pushes["write_entries"]) == bool(pushes["undo_data"])
        ctx.ob("K3.LOG-PAIRED", f.id.rsplit("::", 1)[-1], ok, "appends to both logs" if ok else
               "appends to one of write_entries/undo_data only: the logs lose index alignment and rollback pairs entries with the wrong undo image", f.loc())
    ctx.floor("K3.appenders", n, 2)
    drops = [f for f in m.fns.values() if f.trait.endswith("ops::Drop") and f.self_ty == "database::database::Database"]
    if len(drops) != 1:
        raise common.CheckError("Drop for Database: %d" % len(drops))
    hit = m.may_reach_callee([drops[0].key], lambda c: c.name.endswith("undo_write_entries"))
    ctx.ob("K4.DROP-ABORTS", "Drop for Database", bool(hit), "handle drop reaches undo_write_entries" if hit else
           "dropping a handle with an open transaction does not undo its writes", drops[0].loc())
    rb = common.stmt_handler(m, "execute_rollback")
    ok, esc, _ = must_pass(rb, lambda c: c.name.endswith("undo_write_entries"), [])
    ctx.ob("K5.ROLLBACK-UNDOES", "execute_rollback", ok, "every Ok path of ROLLBACK / ROLLBACK TO passes undo_write_entries" if ok else
           "a rollback form can return Ok without undoing", rb.loc(), describe_path(rb, esc[0]) if esc else None)
