"""C07 ROLLBACK and ROLLBACK TO SAVEPOINT restore the earlier state — structural clauses.

 K1 RESET-FIELDS   ActiveTransaction::rollback_to_savepoint updates every bookkeeping field take_write_entries resets, and the
                   parallel logs (write_entries / undo_data) are drained together.
 K2 UNDO-ORDER     write entries are undone newest-first.
 K3 LOG-PAIRED     every function that pushes to ActiveTransaction.write_entries also pushes to undo_data (the two logs stay
                   index-aligned).
 K4 DROP-ABORTS    dropping a Database handle with an open transaction reaches abort_active_transaction -> undo_write_entries.
 K5 ROLLBACK-UNDOES ROLLBACK and ROLLBACK TO both must-pass undo_write_entries before Ok.
 K6 LOG-EVERY-WRITE every appender to the write log pushes on every path (or coalesces bounded by the innermost savepoint only).
 K7 KEY-SUFFIX     (shared with C10 X4) functions building multi-column index keys consult IndexDef::is_unique.
 K8 UNDO-REMOVES-NEW-KEYS  each index insert in undo_write_entry is paired with a delete on the same tree in the same loop.
 K9 INDEX-VALUE    (shared with C10 X6) index entry values never derive from a column value.
Row counts and HNSW state after rollback are NOT decided here.
"""
import dmlrules, common
from paths import must_pass, describe_path, call_named
from model import place_fields

AT = "database::transaction::ActiveTransaction::"


def run(ctx):
    m = ctx.m
    ctx.clause = ("Transaction undo shape: bookkeeping reset on ROLLBACK TO equals that of full rollback; newest-first undo; parallel "
                  "logs pushed together; handle drop aborts; both rollback forms pass undo_write_entries.")
    dmlrules.txn_reset_fields(ctx, "K1.RESET-FIELDS")
    dmlrules.undo_newest_first(ctx, "K2.UNDO-ORDER")
    n = 0
    for f in sorted(m.fns.values(), key=lambda f: f.id):
        if not f.id.startswith(AT):
            continue
        pushes = {"write_entries": 0, "undo_data": 0}
        for b in f.blocks:
            for s in b["s"]:
                if s[0] == "=" and s[2][0] == "ref" and s[2][1]:
                    for x in place_fields(s[2][2]):
                        for k in pushes:
                            if x.endswith("ActiveTransaction::" + k):
                                pushes[k] += 1
        adds = [c for c in f.calls if c.name.rsplit("::", 1)[-1] in ("push", "extend", "extend_from_slice", "append")]
        if not adds or not (pushes["write_entries"] or pushes["undo_data"]):
            continue
        n += 1
        ok = bool(pushes["write_entries"]) == bool(pushes["undo_data"])
        ctx.ob("K3.LOG-PAIRED", f.id.rsplit("::", 1)[-1], ok, "appends to both logs" if ok else
               "appends to one of write_entries/undo_data only: the logs lose index alignment and rollback pairs entries with the wrong undo image", f.loc())
    ctx.floor("K3.appenders", n, 2)
    drops = [f for f in m.fns.values() if f.trait.endswith("ops::Drop") and f.self_ty == "database::database::Database"]
    if len(drops) != 1:
        raise common.CheckError("Drop for Database: %d" % len(drops))
    hit = m.may_reach_callee([drops[0].key], lambda c: c.name.endswith("undo_write_entries"))
    ctx.ob("K4.DROP-ABORTS", "Drop for Database", bool(hit), "handle drop reaches undo_write_entries" if hit else
           "dropping a handle with an open transaction does not undo its writes", drops[0].loc())
    rb = common.stmt_handler(m, "execute_rollback")
    ok, esc, _ = must_pass(rb, lambda c: c.name.endswith("undo_write_entries"), [])
    ctx.ob("K5.ROLLBACK-UNDOES", "execute_rollback", ok, "every Ok path of ROLLBACK / ROLLBACK TO passes undo_write_entries" if ok else
           "a rollback form can return Ok without undoing", rb.loc(), describe_path(rb, esc[0]) if esc else None)
    # K6: rollback_to_savepoint splits the log purely by index, so a write made after a savepoint needs a log entry after that
    # savepoint's index.  The appenders therefore log unconditionally; a skip path is acceptable only if its boundary is the
    # innermost savepoint (savepoints consulted through `last` only) — any other boundary loses the before-image an inner
    # ROLLBACK TO needs.
    from paths import arg_origin, origin_fields
    k6 = 0
    for f in sorted(m.fns.values(), key=lambda f: f.id):
        if not f.id.startswith(AT) or f.kind == "closure":
            continue
        pushes = [c for c in f.calls if c.name.rsplit("::", 1)[-1] == "push" and
                  any(x.endswith("ActiveTransaction::write_entries") for x in origin_fields(f, *arg_origin(f, c, 0)[:2]))]
        if not pushes:
            continue
        k6 += 1
        ok, esc, _ = must_pass(f, lambda c: c in pushes, [], nonempty_loops=True)
        why = "every path appends to the write log"
        if not ok:
            group = [f] + list(common.all_closures(m, f))
            sp = [c for g in group for c in g.calls if c.args and
                  any(x.endswith("ActiveTransaction::savepoints") for x in origin_fields(g, *arg_origin(g, c, 0)[:2]))]
            tails = {c.name.rsplit("::", 1)[-1] for c in sp if not c.name.endswith("ops::Deref>::deref")}
            if tails and tails <= {"last", "last_mut", "len", "is_empty"}:
                ok, why = True, "a write can be coalesced, bounded by the innermost savepoint only"
            else:
                why = ("a write can return without a log entry (%s) and the skip is not bounded by the innermost savepoint (savepoints consulted via %s): "
                       "ROLLBACK TO an inner savepoint has no before-image for that row" % (describe_path(f, esc[0]), sorted(tails) or "nothing"))
        ctx.ob("K6.LOG-EVERY-WRITE", f.id.rsplit("::", 1)[-1], ok, why, f.loc())
    ctx.floor("K6.appenders", k6, 2)
    # shared with C10 X4: rollback / UPDATE / DELETE must address index entries under the key INSERT stored them
    dmlrules.index_key_suffix_rule(ctx, "K7.KEY-SUFFIX", dmlrules.KEY_SUFFIX_TOLERATED)
    dmlrules.undo_removes_new_keys(ctx, "K8.UNDO-REMOVES-NEW-KEYS")
    dmlrules.index_value_is_row_key(ctx, "K9.INDEX-VALUE")
    dmlrules.undo_restores_entry(ctx, "K10.UNDO-RESTORES-ENTRY")
