"""C24 Vector distance ordering is exact — element-coverage and dispatch clauses of the vectorised kernels only.

 V1 STRIDE=LANES    in every vector loop of a kernel in hnsw::distance (a loop containing SIMD loads), the cursor is advanced by
                    the constant K that also appears in the loop guard `i + K <= n`, and K is the lane count of the loads in the
                    loop (_mm256_loadu_ps -> 8, _mm_loadu_ps / vld1q_f32 -> 4).  Otherwise elements are skipped or counted twice.
 V2 TAIL-LOOP       after the vector loop a scalar loop over the same cursor runs while `i < n` with stride 1, where n is the
                    length of the first argument: the `len % K` trailing elements are part of the sum for every vector length.
 V3 DISPATCH-GUARD  an AVX2+FMA kernel is reachable from a dispatcher only when both __is_feature_detected::avx2 and ::fma
                    returned true (with either assumed false, the call is unreachable).
 V4 SELECTORS       select_distance_fn / select_squared_distance_fn hand out only dispatchers or scalar kernels, never a
                    target_feature kernel directly.
Only the kernels compiled for the analysed target (x86_64) are covered; NEON variants are cfg'd out of this build.
Floating-point agreement with the scalar definition, ORDER BY / LIMIT k over distances are NOT decided.
"""
from model import CheckError, operand_place
from paths import const_value, assumed_cuts, call_named

D = "hnsw::distance::"
LANES = {"_mm256_loadu_ps": 8, "_mm256_load_ps": 8, "_mm_loadu_ps": 4, "_mm_load_ps": 4, "vld1q_f32": 4, "_mm512_loadu_ps": 16}


def run(ctx):
    m = ctx.m
    ctx.clause = ("Vector kernels: vector-loop stride = guard constant = lane count of its loads; a scalar tail loop `i < n`, stride 1, "
                  "covers the remaining elements; AVX2/FMA kernels are called only under both runtime feature tests; selectors return "
                  "dispatchers/scalar kernels only.")
    kernels = [f for f in m.fns.values() if f.id.startswith(D) and f.kind != "closure" and
               any(c.name.rsplit("::", 1)[-1] in LANES for c in f.calls)]
    ctx.floor("V.vector_kernels", len(kernels), 3)
    for f in sorted(kernels, key=lambda f: f.id):
        short = f.id.rsplit("::", 1)[-1]
        loops = f.loops()
        items = list(loops.items()) if isinstance(loops, dict) else list(loops)
        loads = [c for c in f.calls if c.name.rsplit("::", 1)[-1] in LANES]
        vloops = [(h, b) for h, b in items if any(c.bb in b for c in loads)]
        if not vloops:
            raise CheckError("%s: SIMD loads outside any loop" % short)
        for h, body in vloops:
            lanes = {LANES[c.name.rsplit("::", 1)[-1]] for c in loads if c.bb in body}
            # sums `x + K` inside the loop; the one stored back into x makes x the cursor, the one compared with n is the guard
            sums = []
            for bb in body:
                for st in f.blocks[bb]["s"]:
                    if st[0] == "=" and st[2][0] == "bin" and st[2][1] in ("AddWithOverflow", "Add") and st[2][3][0] == "k":
                        src = operand_place(st[2][2])
                        if src is not None and not src[1]:
                            sums.append((src[0], st[2][3][4], st[1][0]))
            cursors = {}
            for src, k, tmp in sums:
                for bb in body:
                    for st in f.blocks[bb]["s"]:
                        if st[0] == "=" and not st[1][1] and st[2][0] == "use":
                            q = operand_place(st[2][1])
                            if q is not None and q[0] == tmp and _copy_of(f, src, st[1][0]):
                                cursors[st[1][0]] = k
            guards = set()
            for src, k, tmp in sums:
                if not any(_copy_of(f, src, c_) for c_ in cursors):
                    continue
                for bb in body:
                    for st in f.blocks[bb]["s"]:
                        if st[0] == "=" and st[2][0] == "bin" and st[2][1] in ("Le", "Lt"):
                            a = operand_place(st[2][2])
                            if a is not None and _from_tmp(f, a[0], tmp):
                                guards.add((st[2][1], k))
            ok = len(cursors) == 1 and len(lanes) == 1
            why = "cursor/lanes not uniquely identified (cursors %s, lanes %s)" % (cursors, sorted(lanes))
            if ok:
                cur, K = next(iter(cursors.items()))
                L = next(iter(lanes))
                gk = {k for op, k in guards if k != K or True}
                gconst = {k for op, k in guards}
                ok = K == L and (K in gconst)
                why = ("stride %d = guard constant = %d lanes" % (K, L)) if ok else \
                      "cursor advances by %s, the guard tests cursor + %s, the loads read %d lanes: elements are skipped or read twice" % (K, sorted(gconst), L)
            ctx.ob("V1.STRIDE=LANES", short, ok, why, f.loc())
            if len(cursors) != 1:
                continue
            cur = next(iter(cursors))
            # V2: a later loop over the same cursor, guard Lt(cur, n), stride 1, n = len(arg 1)
            tail_ok, twhy = False, "no scalar loop over the same cursor follows the vector loop: the trailing len % K elements never enter the sum"
            for h2, body2 in items:
                if h2 == h or not f.dominates(h, h2) or h2 in body:
                    continue
                stride1 = False
                for bb in body2:
                    for s in f.blocks[bb]["s"]:
                        if s[0] == "=" and s[2][0] == "bin" and s[2][1] in ("AddWithOverflow", "Add") and s[2][3][0] == "k" and s[2][3][4] == 1:
                            src = operand_place(s[2][2])
                            if src is not None and src[0] == cur:
                                stride1 = True
                guard = False
                for s in f.blocks[h2]["s"]:
                    if s[0] == "=" and s[2][0] == "bin" and s[2][1] == "Lt":
                        a, b = operand_place(s[2][2]), operand_place(s[2][3])
                        if a is not None and b is not None and _copy_of(f, a[0], cur) and _is_len_of_arg(f, b[0], 1):
                            guard = True
                if stride1 and guard:
                    tail_ok, twhy = True, "scalar tail `while i < a.len()` with stride 1 follows the vector loop"
                elif stride1 or guard:
                    twhy = "a loop over the same cursor follows but its guard is not `i < a.len()` or its stride is not 1: trailing elements are missed or read twice"
            ctx.ob("V2.TAIL-LOOP", short, tail_ok, twhy, f.loc())
    # V3
    nd = 0
    for f in sorted(m.fns.values(), key=lambda f: f.id):
        if not f.id.startswith(D) or f.id.rsplit("::", 1)[-1].endswith("_avx2"):
            continue
        calls = [c for c in f.calls if c.name.startswith(D) and c.name.endswith("_avx2")]
        if not calls:
            continue
        nd += 1
        bad = []
        for feat in ("avx2", "fma"):
            cuts, applied = assumed_cuts(f, [call_named("__is_feature_detected::" + feat, False)])
            cuts = set(cuts) | _const_switch_cuts(f)
            reach = f.reachable([0], cut_edges=cuts)
            if not applied or any(c.bb in reach for c in calls):
                bad.append(feat)
        ctx.ob("V3.DISPATCH-GUARD", f.id.rsplit("::", 1)[-1], not bad, "AVX2 kernel reached only when avx2 and fma are both detected" if not bad else
               "the AVX2+FMA kernel is reachable although %s was not detected: illegal instruction (or a different result) on CPUs without it" % "/".join(bad), calls[0].loc())
    ctx.floor("V3.dispatchers", nd, 3)
    # V4
    for name in ("select_distance_fn", "select_squared_distance_fn"):
        f = m.fn(D + name)
        direct = []
        for b in f.blocks:
            for s in b["s"]:
                txt = str(s)
                for k in kernels:
                    if k.id in txt:
                        direct.append(k.id)
        ctx.ob("V4.SELECTORS", name, not direct, "hands out dispatchers / scalar kernels only" if not direct else
               "returns the target_feature kernel %s directly, bypassing the runtime feature test" % direct[0], f.loc())
    kernels_stay_in_index(ctx)


def _from_tmp(f, local, tmp, depth=4):
    while depth > 0:
        depth -= 1
        if local == tmp:
            return True
        ds = f.defs().get(local, [])
        if len(ds) != 1 or ds[0][0] != "stmt" or ds[0][3][0] != "use":
            return False
        q = operand_place(ds[0][3][1])
        if q is None:
            return False
        local = q[0]
    return False


def _copy_of(f, local, cur, depth=4):
    while depth > 0:
        depth -= 1
        if local == cur:
            return True
        ds = f.defs().get(local, [])
        if len(ds) != 1 or ds[0][0] != "stmt" or ds[0][3][0] != "use":
            return False
        q = operand_place(ds[0][3][1])
        if q is None or q[1]:
            return False
        local = q[0]
    return False


def _is_len_of_arg(f, local, argno, depth=6):
    while depth > 0:
        depth -= 1
        ds = f.defs().get(local, [])
        if len(ds) != 1:
            return False
        d = ds[0]
        if d[0] == "call":
            c = d[2]
            if c.name.rsplit("::", 1)[-1] != "len" or not c.args:
                return False
            q = operand_place(c.args[0])
            while q is not None:
                if q[0] == argno:
                    return True
                dd = f.defs().get(q[0], [])
                if len(dd) != 1 or dd[0][0] != "stmt" or dd[0][3][0] not in ("ref", "use"):
                    return False
                q = dd[0][3][2] if dd[0][3][0] == "ref" else operand_place(dd[0][3][1])
            return False
        rv = d[3]
        if rv[0] == "use":
            q = operand_place(rv[1])
            if q is None or q[1]:
                return False
            local = q[0]
            continue
        if rv[0] == "un" and rv[1] == "PtrMetadata":
            q = operand_place(rv[2])
            return q is not None and q[0] == argno
        return False
    return False


def _const_switch_cuts(f):
    """edges of bool switches whose operand is a compile-time constant (cfg!(target_feature = ..) folds to `false`)"""
    cuts = set()
    for bb, b in enumerate(f.blocks):
        t = b["t"]
        if t[0] != "switch" or t[2] != "bool":
            continue
        pl = operand_place(t[1])
        if pl is None or pl[1]:
            continue
        k, p, neg = f.origin(pl[0])
        if k != "const" or p[4] not in (0, 1):
            continue
        v = bool(p[4]) != neg
        false_t = [x[1] for x in t[3] if x[0] == 0] or [t[4]]
        true_t = [x[1] for x in t[3] if x[0] == 1] or [t[4]]
        for tgt in (false_t if v else true_t):
            if tgt not in (true_t if v else false_t):
                cuts.add((bb, tgt))
    return cuts


def kernels_stay_in_index(ctx):
    """V5 F32-KERNELS-WHO: the kernels of hnsw::distance accumulate in f32 — adequate for ranking ANN candidates, not for the exact
    ORDER BY vec <-> q key, which the executor accumulates in f64 (an f32 sum overflows to +inf for large components and every such
    row then compares equal).  They may be called from the hnsw module only."""
    m = ctx.m
    ext = sorted({(f.id, c.name.rsplit("::", 1)[-1]) for f in m.fns.values() if not f.id.startswith("hnsw::")
                  for c in f.calls if c.name.startswith("hnsw::distance::")})
    inside = sum(1 for f in m.fns.values() if f.id.startswith("hnsw::") and not f.id.startswith("hnsw::distance::")
                 for c in f.calls if c.name.startswith("hnsw::distance::"))
    ctx.ob("V5.F32-KERNELS-WHO", "hnsw::distance", not ext and inside > 0, "called only from the hnsw module (%d call site(s))" % inside if not ext else
           "%s computes a value with the f32-accumulating kernel %s outside the index: an exact distance key narrowed through f32 overflows / "
           "loses order for large components" % ext[0], "src/hnsw/distance.rs")
