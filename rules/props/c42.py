"""C42 Configuration choices do not change query results — structural clauses.

 W1 ARM-AGREE       every two-armed branch on `wal_enabled` whose arms operate on a B-tree performs the same multiset of
                    B-tree operations in both arms (modulo the storage type parameter), including the operations of the
                    closures each arm invokes: WAL on/off must differ only in dirty-page tracking, never in what is written.
 W2 DRAINED-LOGGED  pages taken out of the dirty tracker (drain_for_table) are logged completely: the commit/flush functions
                    never iterate the drained set with a lossy adaptor (chunks_exact without remainder, take, skip, step_by)
                    — an unlogged drained page is later overwritten by an older WAL frame at checkpoint/reopen, so results
                    differ between WAL on and off.
 W3 PRAGMA-ISOLATION the synchronous / checkpoint-threshold / autoflush settings are read only by the WAL and commit layers
                    (storage::wal, database::{transaction,lifecycle,pragma,config,database,batch}), never by query or DML
                    result code.
The open-file LRU aliasing question and result equality are NOT decided.
"""
from model import CheckError, operand_place
from paths import switch_cond_origin, origin_fields, arg_origin
import common


def wal_switches(m):
    out = []
    for f in sorted(m.fns.values(), key=lambda f: f.id):
        for bb, b in enumerate(f.blocks):
            t = b["t"]
            if t[0] != "switch" or t[2] != "bool":
                continue
            pl = operand_place(t[1])
            named = False
            if pl and not pl[1]:
                l = pl[0]
                for _ in range(4):
                    if any(d[0] == "wal_enabled" and d[1][0] == l and not d[1][1] for d in f.dbg):
                        named = True
                        break
                    ds = f.defs().get(l, [])
                    if len(ds) == 1 and ds[0][0] == "stmt" and ds[0][3][0] == "use" and operand_place(ds[0][3][1]) and not operand_place(ds[0][3][1])[1]:
                        l = operand_place(ds[0][3][1])[0]
                    else:
                        break
            if not named:
                o = switch_cond_origin(f, bb)
                if o and o[0] == "call" and o[1] is not None and o[1].name.endswith("::load"):
                    k2, p2, _ = arg_origin(f, o[1], 0)
                    named = any(x.endswith("wal_enabled") for x in origin_fields(f, k2, p2))
            if named:
                out.append((f, bb))
    return out


def run(ctx):
    m = ctx.m
    ctx.clause = ("WAL on/off branches perform identical B-tree operations; drained dirty pages are logged completely; durability "
                  "pragmas are read only by the WAL/commit layers.")
    arm_agree(ctx, "W1.ARM-AGREE", lambda f: True, 10)
    # W2
    common.drained_logged(ctx, "W2.DRAINED-LOGGED")
    # W3
    allowed = ("storage::wal::", "database::transaction::", "database::lifecycle::", "database::pragma::", "database::config::",
               "database::database::", "database::batch::", "database::recovery::", "storage::wal_storage::")
    bad = []
    uses = 0
    for f in m.fns.values():
        for c in f.calls:
            if c.name.endswith("Wal::sync_mode") or c.name.endswith("SyncMode::should_sync") or c.name.endswith("Wal::checkpoint_threshold"):
                uses += 1
                host = f.id if f.kind != "closure" else f.parent
                if not any(host.startswith(a) or ("<impl database::database::Database>" in host and host.startswith(a.split("::")[0])) for a in allowed):
                    bad.append((host, c))
    ctx.floor("W3.setting_reads", uses, 3)
    ctx.ob("W3.PRAGMA-ISOLATION", "sync_mode/threshold", not bad, "%d read(s), all in the WAL/commit layers" % uses if not bad else
           "durability settings are read by %s" % sorted({h for h, _ in bad})[:3], bad[0][1].loc() if bad else "")
    common.checkpoint_after_flush(ctx, "W4.CHECKPOINT-AFTER-FLUSH")


def arm_agree(ctx, rule, keep, floor):
    """every two-armed branch on `wal_enabled` whose arms operate on a B-tree performs the same multiset of B-tree operations"""
    m = ctx.m
    n = 0
    for f, bb in wal_switches(m):
        if not keep(f):
            continue
        arms = f.succ(bb)
        if len(arms) != 2:
            continue
        sets = []
        for a in arms:
            reg = set(x for x in f.reachable([a]) if f.dominates(a, x))
            ops = [common.btree_call_parts(c)[1] for c in f.calls if c.bb in reg and common.btree_call_parts(c)]
            for g in m.closures_of(f):
                if any(c.bb in reg and common.closure_arg_is(m, f, c, g) for c in f.calls):
                    ops += ["closure:" + common.btree_call_parts(c)[1] for c in g.calls if common.btree_call_parts(c)]
            sets.append(sorted(ops))
        if not any(sets):
            continue
        n += 1
        ordinal = len([1 for o in ctx.obs if o["rule"] == rule and o["key"].startswith(f.id.rsplit("::", 1)[-1] + "#")]) + 1
        ok = sets[0] == sets[1]
        ctx.ob(rule, "%s#%d" % (f.id.rsplit("::", 1)[-1], ordinal), ok, "both arms: %s" % sets[0] if ok else
               "the WAL-on and WAL-off arms perform different B-tree operations: %s vs %s" % (sets[0], sets[1]), "%s:%s" % (f.file, f.blocks[bb].get("l")))
    ctx.floor(rule + ".wal_branches", n, floor)
