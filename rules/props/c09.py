"""C09 Declared constraints hold exactly — structural clauses.

 N1 CONSTRAINT-SIBLINGS every row-writing entry point reaches the constraint effect kinds its statement kind can violate:
                        INSERT family: NOT NULL/type validation, CHECK, FK parent probe, unique/PK index probe;
                        UPDATE family: validation, CHECK, index probe.  One obligation per (entry, effect).
 N2 UNDO-ORDER          rollback undoes write entries newest-first (otherwise a delete+re-insert of one key inside a transaction
                        leaves the restored row without its PK/UNIQUE index entry and later duplicates are accepted).
 N3 CHECK-DEPTH         the CHECK evaluator's recursion is depth-guarded.
The string-matched CHECK evaluator's semantics and FK/tombstone interplay are NOT decided.
"""
import dmlrules, recur

TOLERATED = {
    "insert_cached:fk_parent": "not demonstrated", "insert_batch:fk_parent": "not demonstrated", "bulk_insert:fk_parent": "not demonstrated",
    "bulk_insert:validate": "not demonstrated", "bulk_insert:check": "not demonstrated",
    "update_from:index": "not demonstrated",
}


def run(ctx):
    m = ctx.m
    ctx.clause = ("Constraint-effect matrix over all row-writing entry points; newest-first undo; depth-guarded CHECK evaluation.")
    ins = ["validate", "check", "fk_parent", "index"]
    upd = ["validate", "check", "index"]
    req = {"insert": ins, "insert_cached": ins, "insert_batch": ins, "bulk_insert": ins, "update": upd, "update_cached": upd, "update_from": upd}
    n = dmlrules.sib_matrix(ctx, "N1.CONSTRAINT-SIBLINGS", req, TOLERATED)
    ctx.floor("matrix_cells", n, 20)
    dmlrules.undo_newest_first(ctx, "N2.UNDO-ORDER")
    rec, adj = recur.sccs(m)
    comps = [c for c in rec if any("eval_check_expr" in x for x in c)]
    g = [recur.depth_guard(m, c) for c in comps]
    ctx.ob("N3.CHECK-DEPTH", "eval_check_expr", bool(comps) and all(g), "CHECK evaluator recursion is depth-guarded (%s)" % (g[0] if g else "") if comps and all(g) else
           "CHECK expression evaluation recurses without a depth limit", "src/database/database.rs")
    # shared with C10 X4: rollback / UPDATE / DELETE must address index entries under the key INSERT stored them
    dmlrules.index_key_suffix_rule(ctx, "N4.KEY-SUFFIX", dmlrules.KEY_SUFFIX_TOLERATED)
    dmlrules.modified_set_complete(ctx, "N5.MODIFIED-SET-COMPLETE")
