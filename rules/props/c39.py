"""C39 The memory budget is a hard limit — structural clauses over memory::budget::MemoryBudget.

 G1 CHECK-RESERVE-ATOMIC  in allocate, the decision to reserve reads more atomics (the sum of all pool counters) than the
                          compare-exchange validates; therefore the region from those loads to the CAS must run under a
                          mutex guard that is live across it (or the CAS would have to validate every loaded counter).
 G2 LIMIT-GATES-CAS       the compare-exchange is reachable only through the false arm of `new_total > total_limit`.
 G3 SAME-COUNTER          allocate and release both CAS the counter returned by pool_counter(pool) for their own `pool`.
 G4 POOL-MAP-INJECTIVE    pool_counter maps every Pool variant to a distinct field.
 G5 TOTAL-COMPLETE        total_used loads exactly the fields pool_counter can return (no pool escapes the sum).
 G6 RELEASE-LOWERS        release computes its new value with a subtraction of `bytes` from the loaded value.
 G7 RESERVE-ONLY-SERIALISED  any other function of the budget that writes a usize atomic runs under the allocation mutex (its own
                          or, at every call site, its caller's).
Interleavings themselves are NOT decided.
"""
from model import CheckError, operand_place, place_fields
from paths import arg_origin, origin_fields, assumed_cuts, call_named
import codec

MB = "memory::budget::MemoryBudget::"


def run(ctx):
    m = ctx.m
    ctx.clause = ("Budget shape: check-and-reserve is atomic (mutex held across the multi-counter check and the CAS), the limit "
                  "comparison gates the CAS, allocate/release address the same counter, the pool→counter map is injective and the "
                  "total covers every pool.")
    a, r, pc, tu = m.fn(MB + "allocate"), m.fn(MB + "release"), m.fn(MB + "pool_counter"), m.fn(MB + "total_used")
    cas = lambda f: [c for c in f.calls if "Atomic" in c.full and c.name.rsplit("::", 1)[-1].startswith("compare_exchange")]
    ca = cas(a)
    ctx.floor("G.cas_sites_allocate", len(ca), 1)
    # G1
    multi = [c for c in a.calls if c.name == MB + "total_used"]
    locks = [c for c in a.calls if c.name.endswith("Mutex::<R, T>::lock")]
    ok = False
    why = "the CAS validates one counter while the limit check sums all of them, and no mutex covers the region"
    if not multi:
        ok, why = True, "the decision reads only the CAS target"
    else:
        for l in locks:
            gl = l.dest[0]
            dropped_before = any(b["t"][0] == "drop" and b["t"][1][0] == gl and any(a.dominates(bb, c.bb) for c in ca)
                                 for bb, b in enumerate(a.blocks))
            if all(a.dominates(l.bb, x.bb) for x in multi + ca) and not dropped_before:
                ok, why = True, "mutex guard taken before the loads and still live at the compare-exchange"
    ctx.ob("G1.CHECK-RESERVE-ATOMIC", "allocate", ok, why if ok else
           why + ": two threads allocating in different pools both pass the check and exceed the limit", a.loc())
    # G2
    gate = False
    for bb, b in enumerate(a.blocks):
        t = b["t"]
        if t[0] != "switch" or t[2] != "bool":
            continue
        pl = operand_place(t[1])
        k, p, neg = a.origin(pl[0]) if pl and not pl[1] else (None, None, False)
        if k == "rvalue" and p[0] == "bin" and p[1] in ("Gt", "Ge", "Lt", "Le"):
            srcs = []
            for side in (p[2], p[3]):
                q = operand_place(side)
                if q is not None and not q[1]:
                    k2, p2, _ = a.origin(q[0])
                    if k2 == "call" and p2 is not None:
                        srcs.append(p2.name)
            if any(s.endswith("total_limit") for s in srcs) and all(a.dominates(bb, c.bb) for c in ca):
                gate = True
    ctx.ob("G2.LIMIT-GATES-CAS", "allocate", gate, "the CAS is dominated by the comparison with total_limit()" if gate else
           "no comparison with total_limit() dominates the reservation", a.loc())
    # G2b: a lock-free retry must re-evaluate the limit (the comparison and its loads sit inside the CAS retry loop);
    # under a mutex held across the region a hoisted check is equivalent.
    in_loop = True
    for c in ca:
        lp = [(h, body) for h, body in a.loops() if c.bb in body]
        if not lp:
            continue
        h, body = min(lp, key=lambda x: len(x[1]))
        in_loop = in_loop and all(x.bb in body for x in multi) and bool(multi)
    ctx.ob("G2b.RECHECK-ON-RETRY", "allocate", ok and (in_loop or bool(locks)) or (not ok and in_loop), "limit re-evaluated on every retry (or the region is serialised)" if (in_loop or (ok and locks)) else
           "the limit check is evaluated once before the compare-exchange retry loop: a retry after a concurrent allocation reserves "
           "without re-checking and total usage exceeds the limit", a.loc())
    # G3
    for f in (a, r):
        cs = cas(f)
        good = bool(cs)
        for c in cs:
            k, p, _ = arg_origin(f, c, 0)
            good = good and k == "call" and p is not None and p.name == MB + "pool_counter"
            if good:
                pa = operand_place(p.args[1]) if len(p.args) > 1 else None
                # second argument of pool_counter is the function's own `pool` parameter
                good = pa is not None and (pa[0] == 2 or f.origin(pa[0])[0] in ("arg",) or f.origin(pa[0])[1] == 2)
        ctx.ob("G3.SAME-COUNTER", f.id.rsplit("::", 1)[-1], good, "CAS target is pool_counter(pool)" if good else
               "the counter being updated is not the one selected by the caller's pool", f.loc())
    # G4 / G5
    sws = codec.enum_switches(pc, "memory::budget::Pool", m)
    if not sws:
        raise CheckError("pool_counter dispatch not found")
    _, arms, _ = max(sws, key=lambda x: len(x[1]))
    fmap = {}
    for v, tgt in arms.items():
        fs = set()
        for b in codec.dominated(pc, tgt):
            for s in pc.blocks[b]["s"]:
                if s[0] == "=" and s[2][0] == "ref":
                    fs |= {x for x in place_fields(s[2][2]) if x.startswith("memory::budget::MemoryBudget::")}
        fmap[v] = fs
    nv = len(m.adts["memory::budget::Pool"]["variants"])
    inj = len(fmap) == nv and all(len(f) == 1 for f in fmap.values()) and len({next(iter(f)) for f in fmap.values() if f}) == nv
    ctx.ob("G4.POOL-MAP-INJECTIVE", "pool_counter", inj, "%d pools -> %d distinct counters" % (nv, nv) if inj else "pool -> counter map %s" % {k: sorted(v) for k, v in fmap.items()}, pc.loc())
    loaded = set()
    for c in tu.calls:
        if "Atomic" in c.full and c.name.endswith("::load"):
            k, p, _ = arg_origin(tu, c, 0)
            loaded |= {x for x in origin_fields(tu, k, p) if x.startswith("memory::budget::MemoryBudget::")}
    want = {next(iter(f)) for f in fmap.values() if f}
    ctx.ob("G5.TOTAL-COMPLETE", "total_used", loaded == want, "total sums all %d pool counters" % len(want) if loaded == want else
           "total_used covers %s but pools use %s" % (sorted(x.rsplit("::", 1)[-1] for x in loaded), sorted(x.rsplit("::", 1)[-1] for x in want)), tu.loc())
    # G6
    subs = [c for c in r.calls if c.name.endswith("saturating_sub") or c.name.endswith("checked_sub") or c.name.endswith("wrapping_sub")]
    subst = any(s[0] == "=" and s[2][0] == "bin" and s[2][1].startswith("Sub") for b in r.blocks for s in b["s"])
    ctx.ob("G6.RELEASE-LOWERS", "release", bool(subs) or subst, "release subtracts from the loaded value", r.loc())
    # G7 RESERVE-ONLY-SERIALISED: G1 argues about allocate's own body.  Any other function of the budget that writes a usize
    # atomic (a helper that reserves on allocate's behalf) is covered only if every call to it sits under a live mutex guard of its
    # caller, or it takes the mutex itself before its loads; release (lowers, G6) and reset (administrative) are the two other writers.
    WR = ("compare_exchange", "compare_exchange_weak", "fetch_add", "fetch_update", "store", "swap")
    writers = {}
    for f in m.fns.values():
        if not f.id.startswith("memory::budget::"):
            continue
        ws = []
        for c in f.calls:
            if not ("Atomic" in c.full and "<usize>" in c.full and c.name.rsplit("::", 1)[-1] in WR):
                continue
            # only pool counters: a field pool_counter can return, the result of pool_counter(), or a counter passed in by reference
            k_, p_, _ = arg_origin(f, c, 0)
            flds = set(origin_fields(f, k_, p_))
            if (flds & want) or (k_ == "call" and p_ is not None and p_.name == MB + "pool_counter") or (k_ == "arg") or not flds and k_ not in ("field",):
                ws.append(c)
        if ws:
            host = f if f.kind != "closure" else m.fns.get(f.parent, f)
            writers.setdefault(host.id, (host, []))[1].extend(ws)
    ctx.floor("G7.atomic_writers", len(writers), 3)
    lock_name = lambda c: c.name.endswith("Mutex::<R, T>::lock") or c.name.endswith("Mutex::<T>::lock")
    for fid, (f, ws) in sorted(writers.items()):
        tail = fid.rsplit("::", 1)[-1]
        if tail in ("allocate", "release", "reset"):
            ctx.ob("G7.RESERVE-ONLY-SERIALISED", tail, True, "decided by %s" % {"allocate": "G1/G2", "release": "G6 (lowers only)", "reset": "administrative reset"}[tail], f.loc())
            continue
        own = [l for l in f.calls if lock_name(l) and all(f.dominates(l.bb, w.bb) for w in ws)]
        sites = [(g, c) for g in m.fns.values() for c in g.calls if c.name == fid]
        uncovered = []
        for g, c in sites:
            cov = False
            for l in g.calls:
                if lock_name(l) and g.dominates(l.bb, c.bb) and l.bb != c.bb:
                    gl = l.dest[0]
                    if not any(b["t"][0] == "drop" and b["t"][1][0] == gl and g.dominates(bb, c.bb) for bb, b in enumerate(g.blocks)):
                        cov = True
            if not cov:
                uncovered.append((g, c))
        ok7 = bool(own) or (bool(sites) and not uncovered)
        ctx.ob("G7.RESERVE-ONLY-SERIALISED", tail, ok7, "serialised (own lock or every call site under the caller's guard)" if ok7 else
               "%s updates a budget counter with %s and is called outside the allocation mutex (%s): its limit check and its update are not "
               "atomic with those of concurrent allocations in other pools, so the total can exceed the limit"
               % (tail, ws[0].name.rsplit("::", 1)[-1], uncovered[0][1].loc() if uncovered else "no caller"), ws[0].loc())
