"""C21 Schema changes behave as declared and persist — structural clauses.

 D  DDL-SAVES-CATALOG every catalog mutation in a DDL handler is followed by a catalog save on every success path
                      (shared with C01/R5), and the save syncs.
 W  CODEC             catalog writer/reader tables agree (shared with C40).
 S  SCHEMA-RESTORE    user schemas are restored on load (CREATE SCHEMA then reopen).
 K  FILE-KEY-ORDER    in storage::file_manager, same-typed string arguments (schema, table, index name) are passed to the
                      key/path helpers in the helpers' parameter order: a swapped pair builds a key that never matches the
                      cached mapping, so DROP leaves a stale mmap that a re-created object silently reuses.
 E  DROP-EVICTS       FileManager::drop_table / drop_index remove the cached mapping (open_files.remove) as well as the file.
ALTER/TRUNCATE row effects are NOT decided.
"""
from paths import order_after, must_reach_closure, describe_path, from_field, must_pass
import common, persist


def run(ctx):
    m = ctx.m
    ctx.clause = ("DDL handlers save the catalog after every catalog mutation; catalog codec tables agree; user schemas are "
                  "restored on load; file-manager key helpers receive same-typed arguments in parameter order; DROP evicts the "
                  "cached mapping.")
    A5 = [from_field("SharedDatabase::catalog", 1, desc="catalog is loaded (Some)")]
    SAVE = must_reach_closure(m, lambda c: c.name.endswith("CatalogPersistence::save"), A5)
    ddl = common.ddl_handlers(m)
    ctx.floor("D.ddl_handlers", len(ddl), 7)
    nmut = 0
    for name, f in sorted(ddl.items()):
        res, _ = order_after(f, common.is_catalog_mutation, lambda c: c.name in SAVE or c.name.endswith("CatalogPersistence::save"), A5)
        nmut += len(res)
        bad = [(c, esc) for c, okk, esc in res if not okk]
        if bad:
            c, esc = bad[0]
            ctx.ob("D.DDL-SAVES-CATALOG", "%s:%s" % (f.id, c.name.rsplit("::", 1)[-1]), False,
                   "catalog mutation %s can reach an Ok return without a catalog save: the change is lost at reopen" % c.name, c.loc(), describe_path(f, esc[0]))
        elif res:
            ctx.ob("D.DDL-SAVES-CATALOG", f.id, True, "%d catalog mutation site(s) all followed by save_catalog" % len(res), f.loc())
    ctx.floor("D.catalog_mutation_sites", nmut, 6)
    persist.width_tables(ctx, "W")
    persist.tag_tables(ctx, "W")
    persist.schema_restore(ctx, "S.SCHEMA-RESTORE")
    persist.arg_order(ctx, "K.FILE-KEY-ORDER", lambda f: f.id.startswith("storage::file_manager::"), 8)
    for tail in ("drop_table", "drop_index"):
        f = m.fn("storage::file_manager::FileManager::" + tail)
        rm = [c for c in f.calls if c.name.endswith("fs::remove_file")]
        ev = [c for c in f.calls if c.name.endswith("::remove") and ("LruCache" in c.full or "OpenFiles" in c.full or "HashMap" in c.full or "open_files" in c.name or "FileCache" in c.full)]
        ok = bool(rm) and bool(ev)
        ctx.ob("E.DROP-EVICTS", f.id, ok, "file removed and cached mapping evicted" if ok else
               "DROP removes the file but not the cached mapping (or vice versa)", f.loc())
    migrate_every_row(ctx)


def migrate_every_row(ctx):
    """M1 MIGRATE-EVERY-ROW: ALTER TABLE DROP COLUMN rewrites the table under the new layout.  In migrate_table_drop_column, once
    a row has been found (btree.search -> Some) every continuing path stores its re-encoded record in the batch that is written
    back; a skipped row keeps the old layout and is read under the new schema."""
    from paths import success_escapes, describe_path
    from model import operand_place, CheckError
    m = ctx.m
    fs = [f for f in m.fns.values() if f.kind != "closure" and f.id.endswith("::migrate_table_drop_column")]
    if len(fs) != 1:
        raise CheckError("migrate_table_drop_column: %d candidates" % len(fs))
    f = fs[0]
    searches = [c for c in f.calls if c.name.startswith("btree::tree::BTree::") and c.name.rsplit("::", 1)[-1] in ("search", "get")]
    pushes = [c for c in f.calls if c.name.rsplit("::", 1)[-1] == "push" and c.args and
              "(std::vec::Vec<u8>, std::vec::Vec<u8>)" in (f.locals[operand_place(c.args[0])[0]] if operand_place(c.args[0]) else "")]
    n = 0
    for sc in searches:
        # find the Option switch fed by this search (through `?`)
        start = None
        seen, st = set(), [sc.target]
        while st and start is None:
            b = st.pop()
            if b is None or b in seen or len(seen) > 40:
                continue
            seen.add(b)
            t = f.blocks[b]["t"]
            if t[0] == "switch" and t[2] != "bool":
                pl = operand_place(t[1])
                ds = f.defs().get(pl[0], []) if pl else []
                if ds and ds[0][0] == "stmt" and ds[0][3][0] == "disc" and f.locals[ds[0][3][1][0]].startswith("std::option::Option<"):
                    some = [x[1] for x in t[3] if x[0] == 1]
                    start = some[0] if some else None
                    break
            st += [s for s in f.succ(b, unwind=False)]
        if start is None:
            continue
        n += 1
        esc = success_escapes(f, [start], [p.bb for p in pushes], ())
        ctx.ob("M1.MIGRATE-EVERY-ROW", "migrate_table_drop_column#%d" % (n - 1), not esc and bool(pushes),
               "every row found is re-encoded and queued for write-back" if not esc and pushes else
               "a row that was found can be skipped without being rewritten (%s): it keeps the old layout and is decoded under the new schema"
               % (describe_path(f, esc[0]) if esc else "no write-back queue"), sc.loc())
    ctx.floor("M1.row_lookups", n, 1)
