"""C21 Schema changes behave as declared and persist — structural clauses.

 D  DDL-SAVES-CATALOG every catalog mutation in a DDL handler is followed by a catalog save on every success path
                      (shared with C01/R5), and the save syncs.
 W  CODEC             catalog writer/reader tables agree (shared with C40).
 S  SCHEMA-RESTORE    user schemas are restored on load (CREATE SCHEMA then reopen).
 K  FILE-KEY-ORDER    in storage::file_manager, same-typed string arguments (schema, table, index name) are passed to the
                      key/path helpers in the helpers' parameter order: a swapped pair builds a key that never matches the
                      cached mapping, so DROP leaves a stale mmap that a re-created object silently reuses.
 E  DROP-EVICTS       FileManager::drop_table / drop_index remove the cached mapping (open_files.remove) as well as the file.
ALTER/TRUNCATE row effects are NOT decided.
"""
from paths import order_after, must_reach_closure, describe_path, from_field, must_pass
import common, persist


def run(ctx):
    m = ctx.m
    ctx.clause = ("DDL handlers save the catalog after every catalog mutation; catalog codec tables agree; user schemas are "
                  "restored on load; file-manager key helpers receive same-typed arguments in parameter order; DROP evicts the "
                  "cached mapping.")
    A5 = [from_field("SharedDatabase::catalog", 1, desc="catalog is loaded (Some)")]
    SAVE = must_reach_closure(m, lambda c: c.name.endswith("CatalogPersistence::save"), A5)
    ddl = common.ddl_handlers(m)
    ctx.floor("D.ddl_handlers", len(ddl), 7)
    nmut = 0
    for name, f in sorted(ddl.items()):
        res, _ = order_after(f, common.is_catalog_mutation, lambda c: c.name in SAVE or c.name.endswith("CatalogPersistence::save"), A5)
        nmut += len(res)
        bad = [(c, esc) for c, okk, esc in res if not okk]
        if bad:
            c, esc = bad[0]
            ctx.ob("D.DDL-SAVES-CATALOG", "%s:%s" % (f.id, c.name.rsplit("::", 1)[-1]), False,
                   "catalog mutation %s can reach an Ok return without a catalog save: the change is lost at reopen" % c.name, c.loc(), describe_path(f, esc[0]))
        elif res:
            ctx.ob("D.DDL-SAVES-CATALOG", f.id, True, "%d catalog mutation site(s) all followed by save_catalog" % len(res), f.loc())
    ctx.floor("D.catalog_mutation_sites", nmut, 6)
    persist.width_tables(ctx, "W")
    persist.tag_tables(ctx, "W")
    persist.schema_restore(ctx, "S.SCHEMA-RESTORE")
    persist.arg_order(ctx, "K.FILE-KEY-ORDER", lambda f: f.id.startswith("storage::file_manager::"), 8)
    for tail in ("drop_table", "drop_index"):
        f = m.fn("storage::file_manager::FileManager::" + tail)
        rm = [c for c in f.calls if c.name.endswith("fs::remove_file")]
        ev = [c for c in f.calls if c.name.endswith("::remove") and ("LruCache" in c.full or "OpenFiles" in c.full or "HashMap" in c.full or "open_files" in c.name or "FileCache" in c.full)]
        ok = bool(rm) and bool(ev)
        ctx.ob("E.DROP-EVICTS", f.id, ok, "file removed and cached mapping evicted" if ok else
               "DROP removes the file but not the cached mapping (or vice versa)", f.loc())
    migrate_every_row(ctx)
    sticky_flags(ctx)


def migrate_every_row(ctx):
    """M1 MIGRATE-EVERY-ROW: ALTER TABLE DROP COLUMN rewrites the table under the new layout.  In migrate_table_drop_column, once
    a row has been found (btree.search -> Some) every continuing path stores its re-encoded record in the batch that is written
    back; a skipped row keeps the old layout and is read under the new schema."""
    from paths import success_escapes, describe_path
    from model import operand_place, CheckError
    m = ctx.m
    fs = [f for f in m.fns.values() if f.kind != "closure" and f.id.endswith("::migrate_table_drop_column")]
    if len(fs) != 1:
        raise CheckError("migrate_table_drop_column: %d candidates" % len(fs))
    f = fs[0]
    searches = [c for c in f.calls if c.name.startswith("btree::tree::BTree::") and c.name.rsplit("::", 1)[-1] in ("search", "get")]
    pushes = [c for c in f.calls if c.name.rsplit("::", 1)[-1] == "push" and c.args and
              "(std::vec::Vec<u8>, std::vec::Vec<u8>)" in (f.locals[operand_place(c.args[0])[0]] if operand_place(c.args[0]) else "")]
    n = 0
    for sc in searches:
        # find the Option switch fed by this search (through `?`)
        start = None
        seen, st = set(), [sc.target]
        while st and start is None:
            b = st.pop()
            if b is None or b in seen or len(seen) > 40:
                continue
            seen.add(b)
            t = f.blocks[b]["t"]
            if t[0] == "switch" and t[2] != "bool":
                pl = operand_place(t[1])
                ds = f.defs().get(pl[0], []) if pl else []
                if ds and ds[0][0] == "stmt" and ds[0][3][0] == "disc" and f.locals[ds[0][3][1][0]].startswith("std::option::Option<"):
                    some = [x[1] for x in t[3] if x[0] == 1]
                    start = some[0] if some else None
                    break
            st += [s for s in f.succ(b, unwind=False)]
        if start is None:
            continue
        n += 1
        esc = success_escapes(f, [start], [p.bb for p in pushes], ())
        ctx.ob("M1.MIGRATE-EVERY-ROW", "migrate_table_drop_column#%d" % (n - 1), not esc and bool(pushes),
               "every row found is re-encoded and queued for write-back" if not esc and pushes else
               "a row that was found can be skipped without being rewritten (%s): it keeps the old layout and is decoded under the new schema"
               % (describe_path(f, esc[0]) if esc else "no write-back queue"), sc.loc())
    ctx.floor("M1.row_lookups", n, 1)


def sticky_flags(ctx):
    """M2 STICKY-FLAG: the DDL statements that take a list of names (DROP TABLE a, b, c ...) decide after the loop whether to
    persist the catalog from a flag that means "some iteration changed the catalog".  Such a flag — a bool initialised to false before
    a loop, assigned inside it and tested after it — may only be set to `true` inside the loop (or OR-ed with itself): assigning it a
    per-iteration value makes the decision depend on the last name only, and a change made for an earlier name is not saved."""
    from model import operand_place
    from paths import const_value
    m = ctx.m
    n = 0
    for f in sorted(m.fns.values(), key=lambda f: f.id):
        if f.kind == "closure" or not f.id.startswith("database::ddl::"):
            continue
        loops = [(h, set(b)) for h, b in f.loops()]
        if not loops:
            continue
        inloop = set().union(*[b for _, b in loops])
        for l, ty in enumerate(f.locals):
            if ty != "bool" or not any(dn[1][0] == l and not dn[1][1] for dn in f.dbg):
                continue     # source-level variables only (compiler drop flags are bool locals too)
            ds = [d for d in f.defs().get(l, []) if d[0] == "stmt"]
            if len(ds) < 2 or len(ds) != len(f.defs().get(l, [])):
                continue
            outside_false = [d for d in ds if d[1] not in inloop and d[3][0] == "use" and const_value(f, d[3][1]) == 0]
            inside = [d for d in ds if d[1] in inloop]
            if not outside_false or not inside:
                continue
            # tested after the loop: a switch outside every loop containing the stores, on the local (or a plain copy of it)
            tested = False
            for bb, b in enumerate(f.blocks):
                t = b["t"]
                if t[0] != "switch" or t[2] != "bool" or bb in inloop:
                    continue
                q = operand_place(t[1])
                x = q[0] if q is not None and not q[1] else None
                for _ in range(4):
                    if x is None or x == l:
                        break
                    dd = f.defs().get(x, [])
                    if len(dd) == 1 and dd[0][0] == "stmt" and dd[0][3][0] == "use" and operand_place(dd[0][3][1]) and not operand_place(dd[0][3][1])[1]:
                        x = operand_place(dd[0][3][1])[0]
                    else:
                        x = None
                if x == l:
                    tested = True
            if not tested:
                continue
            n += 1
            bad = []
            for d in inside:
                rv = d[3]
                if rv[0] == "use" and const_value(f, rv[1]) == 1:
                    continue
                if rv[0] == "bin" and rv[1] == "BitOr" and any(operand_place(o) is not None and operand_place(o)[0] == l for o in (rv[2], rv[3])):
                    continue
                bad.append(d)
            name = next((dn[0] for dn in f.dbg if dn[1][0] == l and not dn[1][1]), "_%d" % l)
            ctx.ob("M2.STICKY-FLAG", "%s:%s" % (f.id.rsplit("::", 1)[-1], name), not bad, "`%s` is only ever set to true inside the loop" % name if not bad else
                   "`%s` is false before the loop, tested after it, and assigned a per-iteration value inside it (L%s): what an earlier "
                   "iteration did is forgotten when the last one does nothing (e.g. the catalog is not saved after DROP TABLE IF EXISTS a, missing)"
                   % (name, f.blocks[bad[0][1]].get("l")), "%s:%s" % (f.file, f.blocks[bad[0][1]].get("l") if bad else f.line))
    ctx.floor("M2.sticky_flags", n, 1)
