"""C29 B-tree pages stay structurally valid — header-bookkeeping clauses of the node mutators.

"Cell and slot areas lie inside the page and do not overlap" rests on three header counters (cell_count, free_start = end of
the slot array, free_end = start of the cell area) and frag_bytes.  Structural clauses over btree::leaf::LeafNodeMut and
btree::interior::InteriorNodeMut:

 P1 INSERT-FAMILY     every mutator that adds a cell (insert_cell, insert_cell_at, insert_at_end, insert_separator) writes exactly
                      {cell_count, free_start, free_end}: the sibling implementations of "add one slot + one cell" agree.
 P2 DELETE/COMPACT    delete_cell writes {cell_count, free_start, frag_bytes}; compact writes {free_end, frag_bytes} (and resets the
                      fragmentation it removed); update_cell_value_shrink accounts the freed bytes in frag_bytes.
 P3 SPACE-CHECK-FIRST in each insert mutator a comparison against free_space() with an error exit dominates the first write into the
                      page: a cell is never written into space the header does not account as free.
 P4 COUNT+1           the value stored by set_cell_count in the insert family is (old cell_count) + 1, and in delete_cell
                      (old cell_count) - 1.
Key order inside nodes, separator bounds, leaf-chain shape and reachability are NOT decided (value-level).
"""
from model import CheckError, operand_place
from paths import source_call

L = "btree::leaf::LeafNodeMut::<'a>::"
I = "btree::interior::InteriorNodeMut::<'a>::"
INSERTS = [L + "insert_cell", L + "insert_cell_at", L + "insert_at_end", I + "insert_separator"]


def setters(f):
    return sorted({c.name.rsplit("::", 1)[-1][4:] for c in f.calls if "Header" in c.name and c.name.rsplit("::", 1)[-1].startswith("set_")})


def run(ctx):
    m = ctx.m
    ctx.clause = ("Node mutators keep the page header's counters consistent: the insert family writes exactly cell_count/free_start/"
                  "free_end, delete and compact their own sets, a free-space check with an error exit precedes the first page write, and "
                  "cell_count moves by exactly one.")
    want = ["cell_count", "free_end", "free_start"]
    for fid in INSERTS:
        f = m.fn(fid)
        s = setters(f)
        short = fid.split("::")[2].split("<")[0] + "::" + fid.rsplit("::", 1)[-1]
        ctx.ob("P1.INSERT-FAMILY", short, s == want, "writes cell_count, free_start, free_end" if s == want else
               "%s writes header fields %s, its siblings write %s: the slot array and the cell area drift apart" % (short, s, want), f.loc())
        # P3
        writes = [c for c in f.calls if c.name.rsplit("::", 1)[-1] in ("copy_from_slice", "copy_within")]
        fs = [c for c in f.calls if c.name.rsplit("::", 1)[-1] == "free_space"]
        ok3 = False
        if writes and fs:
            first = min(writes, key=lambda c: (c.line, c.bb))
            for d in f.dominators().get(first.bb, ()):
                t = f.blocks[d]["t"]
                if t[0] != "switch" or t[2] != "bool":
                    continue
                pl = operand_place(t[1])
                k, p, neg = f.origin(pl[0]) if pl and not pl[1] else (None, None, False)
                if k == "rvalue" and p[0] == "bin" and p[1] in ("Ge", "Gt", "Le", "Lt"):
                    for side in (p[2], p[3]):
                        q = operand_place(side)
                        sc = source_call(f, q[0]) if q is not None and not q[1] else None
                        if sc is not None and sc.name.rsplit("::", 1)[-1] == "free_space" and f.dominates(sc.bb, first.bb):
                            ok3 = True
        ctx.ob("P3.SPACE-CHECK-FIRST", short, ok3, "a comparison with free_space() dominates the first write into the page" if ok3 else
               "%s writes into the page without first comparing the needed size with free_space(): a cell can overwrite the slot array" % short, f.loc())
        # P4
        ok4 = count_delta(f, 1)
        ctx.ob("P4.COUNT+1", short, ok4, "cell_count is stored as old + 1" if ok4 else
               "%s does not store cell_count + 1" % short, f.loc())
    d = m.fn(L + "delete_cell")
    sd = setters(d)
    ctx.ob("P2.DELETE/COMPACT", "delete_cell", sd == ["cell_count", "frag_bytes", "free_start"], "writes cell_count, free_start, frag_bytes" if sd == ["cell_count", "frag_bytes", "free_start"] else
           "delete_cell writes %s" % sd, d.loc())
    ctx.ob("P4.COUNT+1", "delete_cell", count_delta(d, -1), "cell_count is stored as old - 1" if count_delta(d, -1) else "delete_cell does not store cell_count - 1", d.loc())
    c = m.fn(L + "compact")
    sc_ = setters(c)
    ctx.ob("P2.DELETE/COMPACT", "compact", sc_ == ["frag_bytes", "free_end"], "writes free_end, frag_bytes" if sc_ == ["frag_bytes", "free_end"] else "compact writes %s" % sc_, c.loc())
    u = m.fn(L + "update_cell_value_shrink")
    su = setters(u)
    ctx.ob("P2.DELETE/COMPACT", "update_cell_value_shrink", "frag_bytes" in su, "accounts the freed bytes in frag_bytes" if "frag_bytes" in su else
           "update_cell_value_shrink frees bytes without accounting them", u.loc())
    leaf_chain_splice(ctx)
    dup_check_before_split(ctx)
    prefix_equal_needs_full_compare(ctx)
    init_only_for_new_pages(ctx)


def count_delta(f, delta):
    """the argument of set_cell_count derives from an Add/Sub of constant 1"""
    for c in f.calls:
        if not c.name.endswith("set_cell_count") or len(c.args) < 2:
            continue
        pl = operand_place(c.args[1])
        if pl is None:
            continue
        local, depth = pl[0], 8
        while depth > 0:
            depth -= 1
            ds = f.defs().get(local, [])
            if len(ds) != 1 or ds[0][0] != "stmt":
                break
            rv = ds[0][3]
            if rv[0] == "bin" and rv[1] in (("Add", "AddWithOverflow") if delta > 0 else ("Sub", "SubWithOverflow")) and rv[3][0] == "k" and rv[3][4] == 1:
                return True
            if rv[0] == "use":
                q = operand_place(rv[1])
            elif rv[0] == "cast":
                q = operand_place(rv[2])
            else:
                q = None
            if q is None:
                break
            local = q[0]
    return False


def leaf_chain_splice(ctx):
    """P5 LEAF-CHAIN-SPLICE: split_leaf inserts the new leaf into the singly linked leaf chain: the old leaf's successor is read,
    the old leaf is pointed at the new page, and the new leaf is pointed at the old successor — on every success path.  Dropping
    either store loses every leaf behind the split from cursor scans, or makes the chain skip the new leaf."""
    from paths import must_pass, describe_path, source_call
    m = ctx.m
    fs = [f for f in m.fns.values() if f.kind != "closure" and f.id.startswith("btree::tree::BTree::") and f.id.endswith("::split_leaf")]
    if len(fs) != 1:
        raise CheckError("split_leaf: %d candidates" % len(fs))
    f = fs[0]
    sets = [c for c in f.calls if c.name.endswith("LeafNodeMut::<'a>::set_next_leaf")]
    gets = [c for c in f.calls if c.name.rsplit("::", 1)[-1] == "next_leaf"]
    from_old = []   # set_next_leaf(value read by next_leaf())
    to_new = []     # set_next_leaf(value that is not read from a next pointer: the freshly allocated page number)
    for c in sets:
        pl = operand_place(c.args[1]) if len(c.args) > 1 else None
        src = source_call(f, pl[0]) if pl is not None and not pl[1] else None
        # chase a local that was assigned from next_leaf() earlier (old_next_leaf = leaf.next_leaf())
        dep = False
        if pl is not None:
            import dmlrules
            dep = bool(dmlrules._deps(f, pl[0]) & {g.dest[0] for g in gets if g.dest is not None})
        (from_old if dep else to_new).append(c)
    ok_shape = len(from_old) >= 1 and len(to_new) >= 1 and bool(gets)
    ok_paths = False
    esc = []
    if ok_shape:
        # a leaf without a successor (old next == 0) needs no store of it when the new leaf is created by init(), which zeroes the
        # link: the obligation "new.next := old successor" is decided under the assumption that a successor exists
        from paths import Assume, const_value
        getd = {g.dest[0] for g in gets if g.dest is not None}
        inits = [c for c in f.calls if c.name.endswith("LeafNodeMut::<'a>::init")]

        def is_no_successor_test(fn, kind, payload):
            if kind != "rvalue" or payload[0] != "bin" or payload[1] != "Eq":
                return False
            for x, k in ((payload[2], payload[3]), (payload[3], payload[2])):
                q = operand_place(x)
                if q is not None and const_value(fn, k) == 0 and (dmlrules._deps(fn, q[0]) & getd):
                    return True
            return False
        assume = [Assume("the old leaf has a successor", is_no_successor_test, False)] if inits else []
        o1, e1, _ = must_pass(f, lambda c: c in from_old, assume)
        o2, e2, _ = must_pass(f, lambda c: c in to_new, [])
        ok_paths = o1 and o2
        esc = e1 or e2
    ctx.ob("P5.LEAF-CHAIN-SPLICE", "split_leaf", ok_shape and ok_paths,
           "old.next := new page and new.next := old successor on every success path" if ok_shape and ok_paths else
           ("split_leaf does not splice the new leaf into the leaf chain on every success path (%d store(s) of the old successor, %d store(s) of "
            "the new page%s): cursor scans lose or skip leaves" % (len(from_old), len(to_new), "; " + describe_path(f, esc[0]) if esc else "")), f.loc())


def dup_check_before_split(ctx):
    """P8 DUP-CHECK-BEFORE-SPLIT: a full leaf is split by re-laying out old cells + the new one; the only test that the new key
    is not already present is the comparison with its neighbours in the merged key list.  Every InsertResult::Split built by
    split_leaf is dominated by the guard of that comparison (the branch that decides whether a left neighbour exists and leads to
    the byte-slice equality): a split that returns before it stores a duplicate key and a separator equal to it."""
    m = ctx.m
    fs = [f for f in m.fns.values() if f.kind != "closure" and f.id.startswith("btree::tree::BTree::") and f.id.endswith("::split_leaf")]
    if len(fs) != 1:
        raise CheckError("split_leaf: %d candidates" % len(fs))
    f = fs[0]
    eqs = [c for c in f.calls if c.name.endswith("PartialEq for &[u8]>::eq") or c.name.endswith("PartialEq<[u8]> for [u8]>::eq")
           or (c.name.rsplit("::", 1)[-1] == "eq" and "[u8]" in c.full)]
    splits = [(bb, st[3]) for bb, b in enumerate(f.blocks) for st in b["s"]
              if st[0] == "=" and st[2][0] == "agg" and st[2][1] == "adt" and st[2][2].endswith("InsertResult") and st[2][3] == "Split"]
    if not eqs or not splits:
        raise CheckError("split_leaf: duplicate comparison (%d) / Split result (%d) not found" % (len(eqs), len(splits)))
    first = min(eqs, key=lambda c: c.line)
    guard = None
    for d in sorted(f.dominators().get(first.bb, ()), key=lambda b: -len(f.dominators().get(b, ()))):
        if d != first.bb and f.blocks[d]["t"][0] == "switch":
            guard = d
            break
    if guard is None:
        raise CheckError("split_leaf: guard of the duplicate comparison not found")
    bad = [(bb, l) for bb, l in splits if not f.dominates(guard, bb)]
    ctx.ob("P8.DUP-CHECK-BEFORE-SPLIT", "split_leaf", not bad, "every Split result is built behind the neighbour-equality test (L%s)" % first.line if not bad else
           "split_leaf builds a Split result (L%s) on a path that never reaches the duplicate-key test (L%s): inserting a key that is already "
           "the leaf's maximum stores it twice and publishes a separator equal to it" % (bad[0][1], first.line), "%s:%s" % (f.file, bad[0][1] if bad else first.line))


def prefix_equal_needs_full_compare(ctx):
    """P6 PREFIX-EQUAL-NEEDS-FULL-COMPARE: interior slots carry a zero-padded 4-byte prefix of the separator.  When the probe's
    prefix equals the slot's, only a comparison of the full separator with the key can decide the side ("ab" sorts left of "ab\\0"
    although their prefixes are equal).  In both find_child implementations, every path from the Ordering::Equal arm of the prefix
    comparison back to the loop header passes a byte-slice ordering comparison."""
    m = ctx.m
    n = 0
    for fid in ("btree::interior::InteriorNode::<'a>::find_child", "btree::interior::InteriorNodeMut::<'a>::find_child"):
        f = m.fn(fid)
        loops = f.loops()
        items = list(loops.items()) if isinstance(loops, dict) else list(loops)
        cmps = [c for c in f.calls if ("PartialOrd" in c.name and c.name.rsplit("::", 1)[-1] in ("lt", "le", "gt", "ge", "partial_cmp"))
                or (c.name.rsplit("::", 1)[-1] == "cmp" and "[u8]" in c.full)]
        prefix_cmp = [c for c in f.calls if c.name.rsplit("::", 1)[-1] == "cmp" and "u32" in c.full]
        if not prefix_cmp or not items:
            raise CheckError("%s: prefix comparison / loop not found" % fid)
        pc = prefix_cmp[0]
        h, body = min([(h, b) for h, b in items if pc.bb in b], key=lambda x: len(x[1]))
        # the switch on the Ordering result: Equal has discriminant 0
        sw = pc.target
        t = f.blocks[sw]["t"]
        while t[0] != "switch" and len(f.succ(sw, unwind=False)) == 1:
            sw = f.succ(sw, unwind=False)[0]
            t = f.blocks[sw]["t"]
        if t[0] != "switch":
            raise CheckError("%s: Ordering switch not found" % fid)
        eq = [x[1] for x in t[3] if x[0] == 0]
        if not eq:
            eq = [t[4]]
        n += 1
        blocked = {c.bb for c in cmps}
        seen, st, skip = set(), [eq[0]], False
        while st:
            b = st.pop()
            if b in seen or b in blocked:
                continue
            seen.add(b)
            for s in f.succ(b, unwind=False):
                if s == h:
                    skip = True
                elif s in body:
                    st.append(s)
        short = fid.split("::")[2].split("<")[0] + "::find_child"
        ctx.ob("P6.PREFIX-EQUAL-NEEDS-FULL-COMPARE", short, not skip and bool(cmps), "equal prefixes are always resolved by a full separator comparison" if not skip and cmps else
               "%s can choose a side on equal 4-byte prefixes without comparing the full separator: a key that differs from the separator only in "
               "trailing zero bytes (or length) is routed to the wrong child" % short, pc.loc())
    ctx.floor("P6.find_child_impls", n, 2)


def init_only_for_new_pages(ctx):
    """P7 INIT-WHO: LeafNodeMut::init / InteriorNodeMut::init rewrite the whole header — cell count, free pointers *and the
    next-leaf / right-child link*.  They are for pages that are being created (tree creation, split, new root).  Calling them on a
    page that is already linked into the tree (from compact, delete or update paths) cuts the leaf chain or drops a subtree."""
    m = ctx.m
    allowed = ("btree::tree::BTree::<'a, S>::create", "btree::tree::BTree::<'a, S>::split_leaf", "btree::tree::BTree::<'a, S>::create_new_root",
               "btree::tree::BTree::<'a, S>::split_interior")
    n = 0
    bad = []
    for f in m.fns.values():
        for c in f.calls:
            if c.name in (L + "init", I + "init"):
                n += 1
                host = f.id if f.kind != "closure" else f.id.rsplit("::{closure", 1)[0]
                if host not in allowed:
                    bad.append((host, c))
    ctx.ob("P7.INIT-WHO", "LeafNodeMut::init / InteriorNodeMut::init", not bad and n >= 4,
           "node init is called only where a page is created (%d site(s))" % n if not bad else
           "%s re-initialises a page that is already part of the tree: init also zeroes the next-leaf / right-child link, so the leaf chain is "
           "cut (or a subtree dropped) behind this page" % bad[0][0], bad[0][1].loc() if bad else "src/btree/leaf.rs")
