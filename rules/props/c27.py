"""C27 Varints round-trip with canonical length — two clauses, both complete static arguments.

 V1 NO-PANIC   decode_varint: every MIR Assert (bounds checks, arithmetic overflow), every range-index call and every
               unwrap is discharged by interval / difference-bound reasoning from the dominating length checks and the
               integer types: for every byte string the decoder returns a value or an error and never reads past the input.
 V2 TABLES     varint_len and encode_varint branch on the same thresholds and yield the same lengths; decode_varint's
               consumed counts are exactly those lengths; the fixed marker bytes decode tests for (== k) are exactly the
               marker bytes encode stores first.
Value round-trip (decode(encode(v)) == v) is NOT decided.
"""
from model import CheckError, operand_place
from paths import const_value
import intervals, codec

LEVEL = "proof"
V = "encoding::varint::"


def cond_consts(f):
    return [(e[1], e[2]) for e in codec.emission_signature(f) if e[0] == "cond" and e[1] in ("Le", "Lt", "Eq", "Ge", "Gt", "Ne") and isinstance(e[2], int)]


def ret_consts(f):
    out = []
    for bb, b in enumerate(f.blocks):
        for s in b["s"]:
            if s[0] == "=" and s[1][0] == 0 and not s[1][1] and s[2][0] == "use":
                v = const_value(f, s[2][1])
                if v is not None:
                    out.append((s[3], v))
    return [v for _, v in sorted(out)]


def run(ctx):
    m = ctx.m
    ctx.clause = ("decode_varint is panic-free for every input (all Assert/range/unwrap sites discharged statically); the three "
                  "varint functions share one threshold/length/marker table.")
    ctx.trusted.append("interval and difference-bound evaluation in rules/intervals.py (sound for the straight-line integer code it accepts; anything it cannot bound stays undischarged)")
    d = m.fn(V + "decode_varint")
    sites = intervals.discharge_asserts(d) + intervals.discharge_range_index(d) + intervals.discharge_unwraps(d)
    ctx.floor("V1.panic_sites", len(sites), 12)
    for bb, kind, ok, why, line in sites:
        ctx.ob("V1.NO-PANIC", "decode_varint:%s@bb%d" % (kind, bb), ok, ("discharged: " + why) if ok else
               "a %s panic site in decode_varint cannot be ruled out (%s): some byte string makes the decoder panic or wrap" % (kind, why),
               "%s:%s" % (d.file, line))
    # other panicking calls inside decode_varint (explicit panics, indexing helpers) must not exist
    bad = [c for c in d.calls if c.name.endswith("panicking::panic") or c.name.endswith("panic_fmt") or c.name.endswith("unreachable_display")]
    ctx.ob("V1.NO-EXPLICIT-PANIC", "decode_varint", not bad, "no explicit panic call" if not bad else "explicit panic at line %s" % bad[0].line, d.loc())

    ln, en = m.fn(V + "varint_len"), m.fn(V + "encode_varint")
    cl, ce, cd = cond_consts(ln), cond_consts(en), cond_consts(d)
    rl, re_ = ret_consts(ln), ret_consts(en)
    # an encoder that dispatches on varint_len(value) and returns that length inherits the length function's thresholds and lengths
    delegating = any(c.name == V + "varint_len" for c in en.calls) and not [x for x in ce if x[0] in ("Le", "Lt")] and not re_
    if delegating:
        lens = sorted({v for _, arms, _, _ in codec.int_switches(en, 3) for v in arms})
        if not lens or not set(lens) <= set(rl):
            raise CheckError("encode_varint dispatches on varint_len but its arms %s are not lengths %s" % (lens, rl))
        ctx.note("encode_varint dispatches on varint_len(): thresholds and lengths are those of varint_len")
        ce, re_ = cl, rl
    ctx.ob("V2.THRESHOLDS", "varint_len~encode_varint", cl == ce and len(cl) >= 5, "thresholds %s" % [c for _, c in cl] if cl == ce else
           "length function branches on %s, encoder on %s" % (cl, ce), ln.loc())
    ctx.ob("V2.LENGTHS", "varint_len~encode_varint", rl == re_ and len(rl) >= 6, "lengths %s" % rl if rl == re_ else
           "length function yields %s, encoder returns %s" % (rl, re_), en.loc())
    consumed = sorted(v for bb in range(len(d.blocks)) for s in d.blocks[bb]["s"]
                      if s[0] == "=" and s[2][0] == "agg" and s[2][1] == "tuple" and len(s[2][4]) == 2
                      for v in [s[2][4][1][4] if s[2][4][1][0] == "k" else None] if v is not None)
    ctx.ob("V2.CONSUMED", "decode_varint", consumed == sorted(rl), "consumed counts %s == lengths" % consumed if consumed == sorted(rl) else
           "decoder consumes %s, encoder writes %s" % (consumed, sorted(rl)), d.loc())
    # marker bytes: encoder `buf[0] = k` constants vs decoder `first == k`
    stores = []
    for bb, b in enumerate(en.blocks):
        for s in b["s"]:
            if s[0] == "=" and s[1][1] and any(isinstance(p, list) and p[0] in ("i", "c") for p in s[1][1]) and s[2][0] == "use" and s[2][1][0] == "k" and s[2][1][4] is not None:
                stores.append(s[2][1][4])
    eqs = sorted(c for o, c in cd if o == "Eq")
    ctx.ob("V2.MARKERS", "encode~decode", sorted(set(stores)) == eqs and len(eqs) >= 4, "marker bytes %s" % eqs if sorted(set(stores)) == eqs else
           "encoder stores marker bytes %s, decoder tests for %s" % (sorted(set(stores)), eqs), en.loc())
    les = [c for o, c in cd if o == "Le"]
    ctx.ob("V2.ONE-BYTE-RANGE", "encode~decode", bool(les) and bool(cl) and les[0] == cl[0][1], "single-byte range <= %s on both sides" % (les[0] if les else None), d.loc())
    # V3 CLASS-CONTIGUITY: arithmetic identities between the constants of the three functions (constants are read from the MIR,
    # nothing is executed): the offset subtracted in a class is one more than the previous class's upper bound (no value falls between
    # two classes or into both), the decoder adds back exactly what the encoder subtracts, the 2-byte class has as many values as its
    # first-byte range can address, and the 3-byte class ends at base + 0xFFFF.
    def bin_consts(f, ops):
        out = []
        for b in f.blocks:
            for s in b["s"]:
                if s[0] == "=" and s[2][0] == "bin" and s[2][1] in ops:
                    for side in ((s[2][3], s[2][2]) if s[2][1].startswith("Add") else (s[2][3],)):
                        if side[0] == "k" and side[4] is not None and side[4] > 8:
                            out.append((s[3], side[4]))
        return [v for _, v in sorted(out)]
    T = [c for o, c in ce if o == "Le"]
    S = bin_consts(en, ("Sub", "SubWithOverflow"))
    A = sorted(set(bin_consts(d, ("Add", "AddWithOverflow"))))
    D = [c for o, c in cd if o == "Le"]
    ok = len(T) >= 3 and len(S) >= 2 and len(D) >= 2
    why = "thresholds %s, encoder offsets %s, decoder offsets %s, decoder first-byte bounds %s" % (T[:3], S[:2], A[:2], D[:2])
    if ok:
        ok = (S[0] == T[0] and S[1] == T[1] + 1 and A[:2] == sorted(S[:2]) and D[0] == T[0]
              and T[1] == T[0] + (D[1] - D[0]) * 256 - 1 and T[2] == S[1] + 0xFFFF)
    ctx.ob("V3.CLASS-CONTIGUITY", "varint classes", ok, "classes are contiguous and writer/reader offsets agree (%s)" % why if ok else
           "the length classes do not tile the value range, or the decoder adds back another offset than the encoder subtracts (%s): some value "
           "is encoded in a form the decoder reads as a different value or rejects" % why, en.loc())
