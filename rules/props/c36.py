"""C36 Page write locks are mutually exclusive — structural clauses over database::page_locks.

 L1 GUARD-AFTER-ACQUIRE  every construction of a PageWriteGuard / PageReadGuard value is dominated by a mem::forget of an
                         acquired RwLock guard of the matching mode (a guard value may exist only when the lock is
                         held: its Drop force-unlocks unconditionally, so a guard built before/without the acquisition
                         releases somebody else's lock).
 L2 DROP-MODE            Drop for PageWriteGuard passes force_unlock_write (and no force_unlock_read) exactly once on every
                         path; symmetrically for PageReadGuard; both then pass try_cleanup.
 L3 FORGET-PAIRED        every mem::forget of a lock guard in this module is followed on every path by the construction of the
                         matching guard struct (no acquired-and-lost lock).
 L4 REFCOUNT-UNDER-MUTEX every RMW of PageLockEntry.ref_count (fetch_add / fetch_sub, through acquire()/release()) happens
                         while the shard map mutex (PageLockShard.locks) is held: the call is dominated by locks.lock()
                         and the guard is not dropped before it.  Otherwise a stale remover deletes a newer entry and two
                         writers get different RwLocks for one page.
 L5 REMOVE-BY-IDENTITY   HashMap::remove on the shard map is dominated by an Arc::ptr_eq test of the mapped entry.
 L6 TABLE-INTENT-PAIR    each table-intent guard's Drop reaches the release function that decrements the counter its
                         constructor incremented (shared<->shared, exclusive<->exclusive), under the shard lock.
 L7 MULTI-ORDER          page_write_multi acquires in sorted order (a sort call dominates the acquisitions).
Interleavings themselves are NOT decided.
"""
from paths import success_escapes, order_after, must_pass, describe_path, call_named, assumed_cuts
from model import CheckError, place_fields, operand_place
import common

MOD = "database::page_locks::"


def agg_blocks(f, adt):
    return [(bb, s) for bb, b in enumerate(f.blocks) for s in b["s"] if s[0] == "=" and s[2][0] == "agg" and s[2][1] == "adt" and s[2][2] == adt]


def field_rmw(f, field_suffix):
    """blocks that read-modify-write a plain (non-atomic) field: `x.f = x.f ± k` or saturating_sub"""
    out = []
    for bb, b in enumerate(f.blocks):
        for s in b["s"]:
            if s[0] == "=" and s[1][1] and place_fields(s[1]) and place_fields(s[1])[-1].endswith(field_suffix):
                out.append(bb)
    return out


def run(ctx):
    m = ctx.m
    ctx.clause = ("Page-lock shape: guard values are built only after a forgotten acquisition of the matching mode; Drop "
                  "force-unlocks in the matching mode exactly once; forgotten acquisitions always end in a guard value; "
                  "ref_count RMWs happen under the shard map mutex; map removal by identity; intent counters paired; "
                  "multi-page acquisition in sorted order.")
    fns = [f for f in m.fns.values() if f.id.startswith(MOD) or ("page_locks::" in f.id and f.trait.endswith("ops::Drop"))]
    ctx.floor("page_lock_functions", len(fns), 25)
    forget_w = lambda c: c.name.endswith("mem::forget") and "RwLockWriteGuard" in c.full
    forget_r = lambda c: c.name.endswith("mem::forget") and "RwLockReadGuard" in c.full

    # L1 / L3
    n1 = 0
    for adt, fg, mode in ((MOD + "PageWriteGuard", forget_w, "write"), (MOD + "PageReadGuard", forget_r, "read")):
        for f in m.fns.values():
            ab = agg_blocks(f, adt)
            if not ab:
                continue
            fs = [c for c in f.calls if fg(c)]
            for bb, s in ab:
                n1 += 1
                ok = any(f.dominates(c.bb, bb) for c in fs)
                ctx.ob("L1.GUARD-AFTER-ACQUIRE", "%s:%s" % (f.id, adt.rsplit("::", 1)[-1]), ok,
                       "guard value built only after a forgotten %s acquisition" % mode if ok else
                       "a %s value is constructed on a path that has not acquired (and forgotten) the %s lock: if that guard is "
                       "dropped — e.g. on an early return — its Drop force-unlocks a lock held by another thread" % (adt.rsplit("::", 1)[-1], mode),
                       "%s:%s" % (f.file, s[3]))
            for c in fs:
                tb = [bb for bb, _ in ab]
                esc = success_escapes(f, [c.target], tb, returns_result=False)
                ctx.ob("L3.FORGET-PAIRED", "%s:%s" % (f.id, mode), not esc, "forgotten %s acquisition always ends in a guard value" % mode if not esc else
                       "a %s lock is acquired and forgotten but no guard is returned on some path (lock never released)" % mode, c.loc())
    ctx.floor("L1.guard_constructions", n1, 2)

    # L2
    for gname, good, bad in (("PageWriteGuard", "force_unlock_write", "force_unlock_read"), ("PageReadGuard", "force_unlock_read", "force_unlock_write")):
        ds = [f for f in m.fns.values() if f.trait.endswith("ops::Drop") and gname in f.self_ty and "page_locks" in f.self_ty]
        if len(ds) != 1:
            raise CheckError("Drop impl for %s: %d candidates" % (gname, len(ds)))
        d = ds[0]
        g = [c for c in d.calls if c.name.endswith("::" + good)]
        b = [c for c in d.calls if c.name.endswith("::" + bad)]
        esc = success_escapes(d, [0], [c.bb for c in g], returns_result=False)
        twice = any(y.bb in d.reachable([x.target]) for x in g for y in g if x.target is not None)
        ok = bool(g) and not b and not esc and not twice
        ctx.ob("L2.DROP-MODE", d.id, ok, "%s exactly once on every path, never %s" % (good, bad) if ok else
               "Drop of %s does not release in the matching mode exactly once (calls: %s)" % (gname, [c.name.rsplit("::", 1)[-1] for c in g + b]), d.loc())
        okc, esc2, _ = must_pass(d, lambda c: c.name.endswith("PageLockShard::try_cleanup"), [])
        ctx.ob("L2.DROP-CLEANUP", d.id, okc, "Drop passes try_cleanup" if okc else "Drop skips try_cleanup (lock table never returns to empty)", d.loc())

    # L4
    n4 = 0
    rmw_fns = {}
    for f in fns:
        for c in f.calls:
            if ("Atomic" in c.full and (c.name.endswith("::fetch_add") or c.name.endswith("::fetch_sub"))):
                k, p, _ = __import__("paths").arg_origin(f, c, 0)
                fl = __import__("paths").origin_fields(f, k, p)
                if any(x.endswith("PageLockEntry::ref_count") for x in fl):
                    rmw_fns[f.key] = f
    ctx.floor("L4.ref_count_rmw_functions", len(rmw_fns), 2)
    for f in fns:
        for c in f.calls:
            if c.name not in rmw_fns:
                continue
            n4 += 1
            locks = [x for x in f.calls if x.name.endswith("Mutex::<R, T>::lock") and f.dominates(x.bb, c.bb)]
            held = False
            for l in locks:
                # the guard local must not be dropped on the way: no Drop/mem::drop of the guard type dominates c after l
                gl = l.dest[0]
                dropped = False
                for bb, b in enumerate(f.blocks):
                    t = b["t"]
                    if t[0] == "drop" and t[1][0] == gl and f.dominates(bb, c.bb) and f.dominates(l.bb, bb):
                        dropped = True
                if not dropped:
                    held = True
            ctx.ob("L4.REFCOUNT-UNDER-MUTEX", "%s:%s" % (f.id, c.name.rsplit("::", 1)[-1]), held,
                   "ref_count updated while the shard map mutex is held" if held else
                   "PageLockEntry.ref_count is changed outside the shard map mutex: a thread between the decrement and the map lock "
                   "races with get_or_create and can later remove a newer entry", c.loc())
    ctx.floor("L4.rmw_call_sites", n4, 2)

    # L5
    n5 = 0
    for f in fns:
        if "PageLockShard" not in f.id:
            continue
        for c in f.calls:
            if c.name.endswith("HashMap::<K, V, S, A>::remove") or c.name.endswith("HashMap::<K, V, S>::remove"):
                n5 += 1
                pe = [x for x in f.calls + [y for g in m.closures_of(f) for y in g.calls] if x.name.endswith("Arc::<T, A>::ptr_eq") or x.name.endswith("Arc::<T>::ptr_eq")]
                ok = bool(pe)
                ctx.ob("L5.REMOVE-BY-IDENTITY", f.id, ok, "map removal guarded by an Arc::ptr_eq identity test" if ok else
                       "the shard map entry is removed by key only: a stale remover can delete a newer entry for the same page", c.loc())
    ctx.floor("L5.map_remove_sites", n5, 1)

    # L6
    pairs = (("TableIntentSharedGuard", "table_intent_shared", "release_table_intent_shared", "TableLockState::intent_shared"),
             ("TableIntentExclusiveGuard", "table_intent_exclusive", "release_table_intent_exclusive", "TableLockState::intent_exclusive"))
    for gname, ctor, rel, field in pairs:
        ds = [f for f in m.fns.values() if f.trait.endswith("ops::Drop") and gname in f.self_ty]
        if len(ds) != 1:
            raise CheckError("Drop impl for %s missing" % gname)
        okd, _, _ = must_pass(ds[0], lambda c: c.name.endswith("PageLockManager::" + rel), [])
        cf = m.fn(MOD + "PageLockManager::" + ctor)
        rf = m.fn(MOD + "PageLockManager::" + rel)
        inc = field_rmw(cf, field)
        dec = field_rmw(rf, field)
        wl_c = [c for c in cf.calls if c.name.endswith("RwLock::<R, T>::write")]
        wl_r = [c for c in rf.calls if c.name.endswith("RwLock::<R, T>::write")]
        ok = okd and bool(inc) and bool(dec) and all(any(cf.dominates(l.bb, b) for l in wl_c) for b in inc) and all(any(rf.dominates(l.bb, b) for l in wl_r) for b in dec)
        # guard value only after the increment
        ab = agg_blocks(cf, MOD + gname)
        ok = ok and bool(ab) and all(any(cf.dominates(i, bb) for i in inc) for bb, _ in ab)
        ctx.ob("L6.TABLE-INTENT-PAIR", gname, ok, "constructor increments %s under the shard lock before the guard exists; Drop reaches %s which decrements it" % (field.rsplit("::", 1)[-1], rel) if ok else
               "intent counter %s is not incremented/decremented in a matched pair under the shard lock" % field, cf.loc())

    # L7
    pm = m.fn(MOD + "PageLockManager::page_write_multi")
    sorts = [c for c in pm.calls if "sort" in c.name.rsplit("::", 1)[-1]]
    acq = [c for c in pm.calls if c.name.endswith("PageLockManager::page_write")] + \
          [c for g in m.closures_of(pm) for c in g.calls if c.name.endswith("PageLockManager::page_write")]
    its = [c for c in pm.calls if c.name.endswith("Iterator>::collect") or c.name.endswith("Iterator::collect") or c.name.endswith("::map")]
    ok = bool(sorts) and bool(acq)
    ctx.ob("L7.MULTI-ORDER", pm.id, ok, "pages are sorted before any acquisition (%d acquisition site(s))" % len(acq) if ok else
           "multi-page acquisition without a preceding sort (lock-order deadlock)", pm.loc())
