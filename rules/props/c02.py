"""C02 Crash recovery yields a prefix-consistent database — structural clauses of the two recovery paths and what they rely on.

 P1 SIB-RECOVERY      recover_all_tables (automatic) and streaming_recovery (PRAGMA recover_wal) are two implementations of one
                      redo: both grow the storage, fetch the page, copy the image, record the file as modified, sync every
                      modified storage and truncate the log.
 P2 UNDO-CONSISTENT   the two paths may differ on undo frames only while no undo frame can exist: if Wal::write_undo_frame is
                      reachable from a Database entry point, streaming_recovery must branch on is_undo_frame as the automatic path does.
 P3 SYNC<TRUNCATE     in both paths the log is truncated only after a loop that syncs the modified storages has completed, and no
                      page is written between that loop and the truncate.
 P4 REDO-COMPLETE     inside the frame loop, once the frame's storage is found every continuing path copies the image (no frame of a
                      known table is skipped), and every copy is followed by recording the file as modified.
 P5 DRAINED-LOGGED    pages taken out of the dirty tracker at commit are logged completely (shared with C01/C42).
 W1 WRITE-GATE        every statement arm that mutates storage passes check_writable first (no write while replay is pending).
 U1 UNDO-WIRED        uncommitted in-place page writes can be rolled back by recovery: the undo-frame writer the automatic path
                      consumes (write_wal_undo_frame_if_needed) is reachable from the DML entry points.
Torn multi-page states and "exactly a prefix" over all crash points are NOT decided.
"""
from model import CheckError, operand_place
from paths import success_escapes, order_after, describe_path
import common, dmlrules

R = "database::recovery::<impl database::database::Database>::"
COMMON = ["storage::mmap::MmapStorage::page_count", "storage::mmap::MmapStorage::grow", "storage::mmap::MmapStorage::page_mut",
          "::copy_from_slice", "HashSet::<u64>::insert", "storage::mmap::MmapStorage::sync",
          "storage::wal::Wal::open", "storage::wal::Wal::truncate", "storage::wal::Wal::find_latest_segment", "storage::wal::WalSegment::open"]


def run(ctx):
    m = ctx.m
    ctx.clause = ("Recovery paths: sibling redo implementations agree on their effects; undo handling may differ only while no undo "
                  "frame is ever written; sync of modified storages precedes log truncation; no frame of a known table is skipped; "
                  "drained dirty pages are logged completely; mutating statements are gated by check_writable; undo-frame writer wired.")
    fa, fs = m.fn(R + "recover_all_tables"), m.fn(R + "streaming_recovery")
    for f in (fa, fs):
        short = f.id.rsplit("::", 1)[-1]
        names = {c.name for c in f.calls} | {c.full for c in f.calls}
        for e in COMMON:
            have = any(n.endswith(e) for n in names)
            ctx.ob("P1.SIB-RECOVERY", "%s:%s" % (short, e.rsplit("::", 1)[-1]), have, "present" if have else
                   "%s does not call %s while its sibling does: the two recovery paths no longer produce the same state" % (short, e), f.loc())
        # P3
        trunc = [c for c in f.calls if c.name == "storage::wal::Wal::truncate"]
        syncs = [c for c in f.calls if c.name == "storage::mmap::MmapStorage::sync"]
        copies = [c for c in f.calls if c.name.endswith("::copy_from_slice")]
        loops = f.loops()
        items = list(loops.items()) if isinstance(loops, dict) else list(loops)
        for t in trunc:
            good = None
            for hdr, body in items:
                if t.bb in body or not f.dominates(hdr, t.bb):
                    continue
                if not any(s.bb in body for s in syncs) or any(c.bb in body for c in copies):
                    continue  # a loop that still replays pages (e.g. the batch flush inside the frame loop) is not the final sync
                # nothing written between loop exit and truncate
                exits = {s for b in body for s in f.succ(b, unwind=False) if s not in body}
                after = f.reachable(list(exits))
                # blocks between: reachable from exits and reaching truncate without re-entering
                if any(c.bb in after and c.bb not in body and truncate_reachable_from(f, c.bb, t.bb) for c in copies):
                    continue
                good = hdr
            ctx.ob("P3.SYNC<TRUNCATE", short, good is not None, "truncate at L%d follows the completed sync loop (header bb%s) with no page write in between" % (t.line, good) if good is not None else
                   "Wal::truncate at L%d is not preceded by a completed loop syncing the modified storages (or a page is written after it): "
                   "a crash after the truncate loses replayed pages" % t.line, t.loc())
        ctx.floor("P3.truncates.%s" % short, len(trunc), 1)
        # sync inside its loop is reached whenever the storage is found
        # P4
        gm = [c for c in f.calls if c.full.endswith("::get_mut::<u64>")]
        frame_reads = [c for c in f.calls if c.name in ("storage::wal::WalSegment::read_frame", "storage::wal::WalSegment::read_frame_into")]
        if not frame_reads:
            raise CheckError("frame read not found in " + short)
        frame_loop = None
        for hdr, body in items:
            if frame_reads[0].bb in body and (frame_loop is None or len(body) < len(frame_loop[1])):
                frame_loop = (hdr, body)
        if frame_loop is None:
            raise CheckError("frame loop not found in " + short)
        body = frame_loop[1]
        redo_gm = [c for c in gm if c.bb in body and any(cp.bb in body and f.dominates(c.bb, cp.bb) for cp in copies)]
        ctx.floor("P4.lookup.%s" % short, len(redo_gm), 1)
        for g in redo_gm:
            sw = g.target
            t = f.blocks[sw]["t"]
            some = [x[1] for x in t[3] if x[0] == 1] if t[0] == "switch" else []
            if not some:
                raise CheckError("get_mut switch shape in " + short)
            tb = [cp.bb for cp in copies if cp.bb in body]
            esc = success_escapes(f, [some[0]], tb, ())
            ctx.ob("P4.REDO-COMPLETE", short, not esc, "once the frame's storage is found the image is always copied" if not esc else
                   "a frame of a known table can be skipped: %s — the page keeps an older image than the log holds" % describe_path(f, esc[0]), g.loc())
        res, _ = order_after(f, lambda c: c in copies and c.bb in body, lambda c: c.full.endswith("HashSet::<u64>::insert"))
        for c, ok, esc in res:
            ctx.ob("P4.MODIFIED-RECORDED", "%s@L-copy%d" % (short, [x for x in copies if x.bb in body].index(c)), ok,
                   "copy is followed by recording the file as modified" if ok else
                   "a replayed page is not recorded as modified, so its storage is never synced before the log is truncated", c.loc())
    # P2
    wu = [k for k in m.fns if k.endswith("storage::wal::Wal::write_undo_frame") or k == "storage::wal::Wal::write_undo_frame"]
    if not wu:
        raise CheckError("Wal::write_undo_frame not found")
    users = m.callers_closure(wu[0])
    api = sorted(k for k in users if common.is_sql_entry(k) or k in dmlrules.ENTRIES.values())
    s_undo = any(c.name.endswith("WalFrameHeader::is_undo_frame") for c in fs.calls)
    a_undo = any(c.name.endswith("WalFrameHeader::is_undo_frame") for c in fa.calls)
    ok = (not api) or (s_undo == a_undo)
    ctx.ob("P2.UNDO-CONSISTENT", "streaming_recovery", ok,
           ("no Database entry point can write an undo frame; every frame in a log is a redo frame for both paths" if not api else "both paths branch on is_undo_frame") if ok else
           "undo frames are written (reachable from %s) and recover_all_tables applies them, but streaming_recovery treats every frame as redo: "
           "the two recovery paths produce different states" % api[:3], fs.loc())
    # P5
    common.drained_logged(ctx, "P5.DRAINED-LOGGED")
    # W1
    arms = common.stmt_arms(m)
    es = common.execute_statement_fn(m)
    gated = 0
    for nm in ("CreateTable", "CreateSchema", "CreateIndex", "Insert", "Update", "Delete", "Drop", "Truncate", "AlterTable"):
        if nm not in arms:
            raise CheckError("Statement arm %s not found" % nm)
        hs = arms[nm]
        first_ok = bool(hs) and hs[0].id.endswith("check_writable")
        gated += 1
        ctx.ob("W1.WRITE-GATE", nm, first_ok, "check_writable is the first Database call of the arm" if first_ok else
               "the %s arm mutates storage without passing check_writable first: a write issued while WAL replay is pending is "
               "overwritten by PRAGMA recover_wal" % nm, es.loc())
    # U1
    uw = [k for k in m.fns if k.endswith("::write_wal_undo_frame_if_needed")]
    if not uw:
        raise CheckError("write_wal_undo_frame_if_needed not found")
    cu = m.callers_closure(uw[0])
    wired = sorted(n for n, fid in dmlrules.ENTRIES.items() if fid in cu)
    ctx.ob("U1.UNDO-WIRED", "write_wal_undo_frame_if_needed", bool(wired), "reached from %s" % wired if wired else
           "no DML entry point reaches the undo-frame writer: before-images of pages an open transaction overwrites in place are never "
           "logged, so after a crash recovery cannot remove the uncommitted writes", m.fns[uw[0]].loc())


def truncate_reachable_from(f, a, b):
    return b in f.reachable([a])
