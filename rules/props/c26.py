"""C26 Index key encoding preserves order and is invertible — table clauses over encoding::key and its sibling encoders.

 E1 SIBLING-ENCODERS  the planner's arena encoders (sql::planner::encoding::encode_*_to_arena) and the index encoders
                      (encoding::key::encode_*) are two implementations of one format: their emission signatures (branch
                      predicates with constants, prefixes pushed, integer conversions, bit transforms) are identical.
                      A value encoded differently by the two never meets its own index entry.
 E2 READER-ARM        every prefix an encoder pushes has a non-default arm in decode_key.
 E3 WIDTH/BITS-AGREE  per prefix: integer widths, byte order and sign-flip transforms (Not / BitXor mask) of the writer
                      equal those of the reader arm, and the reader's constant `consumed` equals 1 + fixed payload bytes.
 E4 PREFIX-ORDER      the numeric order of the type prefixes is the documented type order.
 E5 ZERO-SHARED       integer zero and float zero are the only values sharing a key: ZERO is pushed only by encode_int /
                      encode_float (and their siblings), each under an exact `== 0` test.
 E6 TERMINATOR-IN-STEP the consumed length of decode_escaped_bytes derives from the cursor stepped token by token (the
                      terminator `00 00` is only recognisable at a token boundary).
Byte order = value order for every value is NOT decided (numeric).
"""
from model import CheckError, operand_place
import codec

K = "encoding::key::"
P = "sql::planner::encoding::"
ORDER = ["NULL", "FALSE", "TRUE", "NEG_INFINITY", "NEG_BIG_INT", "NEG_INT", "NEG_FLOAT", "ZERO", "POS_FLOAT", "POS_INT",
         "POS_BIG_INT", "POS_INFINITY", "NAN", "TEXT", "BLOB", "DATE", "TIME", "TIMESTAMP", "TIMESTAMPTZ", "INTERVAL", "UUID",
         "INET", "MACADDR", "JSON_NULL", "JSON_FALSE", "JSON_TRUE", "JSON_NUMBER", "JSON_STRING", "JSON_ARRAY", "JSON_OBJECT",
         "ARRAY", "TUPLE", "RANGE", "ENUM", "COMPOSITE", "DOMAIN", "VECTOR", "CUSTOM_START", "MAX_KEY"]


def run(ctx):
    m = ctx.m
    ctx.clause = ("Key codec tables: sibling encoders emit identically; every pushed prefix has a decode arm whose widths, byte "
                  "order, sign-flip transforms and consumed length match the writer; prefix constants are in the documented "
                  "order; ZERO is shared only by exact-zero integer/float.")
    # E1
    pairs = [([K + "encode_int"], [P + "encode_int_to_arena"]), ([K + "encode_float"], [P + "encode_float_to_arena"]),
             ([K + "encode_text", K + "encode_escaped_bytes"], [P + "encode_text_to_arena"])]
    for a, b in pairs:
        sa = [e for n in a for e in codec.emission_signature(m.fn(n))]
        sb = [e for n in b for e in codec.emission_signature(m.fn(n))]
        diff = None
        if sa != sb:
            for i in range(max(len(sa), len(sb))):
                x = sa[i] if i < len(sa) else None
                y = sb[i] if i < len(sb) else None
                if x != y:
                    diff = (i, x, y)
                    break
        ctx.ob("E1.SIBLING-ENCODERS", "%s~%s" % (a[0].rsplit("::", 1)[-1], b[0].rsplit("::", 1)[-1]), sa == sb,
               "%d emission events identical" % len(sa) if sa == sb else
               "the two encoders of one key format disagree at event %d: %s vs %s — a value encoded by the planner will not equal "
               "the key stored in the index" % diff, m.fn(a[0]).loc())

    # writer table over every encoder that pushes a type_prefix
    writers = [f for f in m.fns.values() if (f.id.startswith(K + "encode_") or f.id.endswith("Value::<'a>::encode_to_key")) and f.kind != "closure"]
    ctx.floor("encoder_functions", len(writers), 20)
    wtab = {}
    for f in writers:
        for c in f.calls:
            if not codec.is_push(c) or len(c.args) < 2:
                continue
            a = c.args[1]
            if a[0] != "k" or not a[5] or not a[5].startswith(K + "type_prefix::"):
                continue
            name = a[5].rsplit("::", 1)[-1]
            dom = codec.dominated(f, c.bb)
            ev = codec.region_events(f, dom)
            bits = [e for e in codec.emission_signature(f, False) if e[0] == "bit"]
            # restrict bit events to the dominated region
            bits = region_bits(f, dom)
            wtab.setdefault(name, []).append((f, c, ev, bits))
    ctx.floor("prefixes_written", len(wtab), 20)

    d = m.fn(K + "decode_key")
    sw = codec.int_switches(d, 10)
    if not sw:
        raise CheckError("decode_key switch not found")
    _, arms, other, _ = max(sw, key=lambda x: len(x[1]))
    vals = {c["const"].rsplit("::", 1)[-1]: c["val"] for c in m.consts.values() if c["const"].startswith(K + "type_prefix::")}
    ctx.floor("prefix_constants", len(vals), 35)

    # E2/E3
    for name, lst in sorted(wtab.items()):
        v = vals.get(name)
        tgt = arms.get(v)
        ctx.ob("E2.READER-ARM", name, tgt is not None, "prefix 0x%02x has a decode arm" % v if tgt is not None else
               "prefix %s (0x%02x) is written by %s but decode_key has no arm for it" % (name, v, lst[0][0].id), lst[0][1].loc())
        if tgt is None:
            continue
        rdom = codec.dominated(d, tgt)
        rev = codec.region_events(d, rdom)
        rbits = region_bits(d, rdom)
        rw = sorted((e["w"], e["endian"]) for e in rev if e["k"] == "r" and not e["loop"])
        consumed = consumed_consts(d, rdom)
        for f, c, wev, wbits in lst:
            if f.id.endswith("encode_to_key"):
                continue  # Value::encode_to_key delegates; its own arms are covered through the callee encoders
            ww = sorted((e["w"], e["endian"]) for e in wev if e["k"] == "w" and not e["loop"])
            wt, wvar, wloop = codec.fixed_total(wev, ("w", "bytes"))
            delegating = any(x.name.startswith(K + "encode_") or x.name.endswith("encode_escaped_bytes") for x in f.calls if x.bb in set(codec.dominated(f, c.bb)))
            wdom = set(codec.dominated(f, c.bb))
            branching = any(f.blocks[b]["t"][0] == "switch" for b in wdom)
            varpush = any(codec.is_push(x) and len(x.args) > 1 and x.args[1][0] != "k" and x.bb in wdom for x in f.calls)
            rdeleg = any(x.name.startswith(K + "decode_") for x in d.calls if x.bb in set(rdom))
            simple = (not wvar and not wloop and not delegating and not branching and not varpush and not rdeleg
                      and not any(e["k"] == "r" and e["loop"] for e in rev))
            if not simple:
                continue
            ok_w = ww == rw
            ok_b = sorted(map(str, wbits)) == sorted(map(str, rbits))
            ok_c = (not consumed) or (1 + wt in consumed and len(consumed) == 1)
            ctx.ob("E3.WIDTH/BITS-AGREE", "%s@%s" % (name, f.id.rsplit("::", 1)[-1]), ok_w and ok_b and ok_c,
                   "ints %s, transforms %s, consumed %s" % (ww, wbits, sorted(consumed)) if ok_w and ok_b and ok_c else
                   "writer ints %s transforms %s payload %d byte(s); reader ints %s transforms %s consumed %s"
                   % (ww, wbits, wt, rw, rbits, sorted(consumed)), c.loc())

    # E4
    present = [n for n in ORDER if n in vals]
    ok = all(vals[a] < vals[b] for a, b in zip(present, present[1:]))
    unknown = sorted(set(vals) - set(ORDER))
    ctx.ob("E4.PREFIX-ORDER", "type_prefix", ok and not unknown, "%d prefixes strictly increasing in the documented type order" % len(present) if ok and not unknown else
           "prefix constants are not in the documented type order (or unknown prefixes %s)" % unknown, "src/encoding/key.rs")

    # E5
    zero_writers = sorted({f.id for f, c, ev, b in wtab.get("ZERO", [])})
    allowed = {K + "encode_int", K + "encode_float"}
    ok = set(zero_writers) <= allowed and bool(zero_writers)
    ctx.ob("E5.ZERO-SHARED", "ZERO", ok, "ZERO pushed only by %s" % zero_writers if ok else "ZERO pushed by %s" % zero_writers, "src/encoding/key.rs")
    for fid in zero_writers:
        sig = codec.emission_signature(m.fn(fid))
        i = [k for k, e in enumerate(sig) if e[0] == "push" and e[1] == "ZERO"]
        okz = bool(i) and i[0] > 0 and sig[i[0] - 1][0] == "cond" and sig[i[0] - 1][1] == "Eq" and str(sig[i[0] - 1][2]) in ("0", "0f64")
        ctx.ob("E5.ZERO-EXACT", fid.rsplit("::", 1)[-1], okz, "ZERO chosen by an exact == 0 test" if okz else
               "ZERO is not guarded by an exact == 0 test: non-zero values collapse into the zero key", m.fn(fid).loc())
    terminator_in_step(ctx, K + "decode_escaped_bytes")


def region_bits(f, blocks):
    from paths import const_value
    out = []
    bs = set(blocks)
    for bb in sorted(bs):
        for s in f.blocks[bb]["s"]:
            if s[0] != "=":
                continue
            rv = s[2]
            if rv[0] == "bin" and rv[1] in ("BitXor", "BitAnd"):
                k = const_value(f, rv[3])
                if k is None:
                    k = const_value(f, rv[2])
                out.append((rv[1], k))
            elif rv[0] == "un" and rv[1] == "Not" and f.locals[s[1][0]] != "bool":
                out.append(("Not", None))
    return out


def consumed_consts(f, blocks):
    """constant second components of `(value, consumed)` tuples built in the region"""
    out = set()
    for bb in blocks:
        for s in f.blocks[bb]["s"]:
            if s[0] == "=" and s[2][0] == "agg" and s[2][1] == "tuple" and len(s[2][4]) == 2:
                b = s[2][4][1]
                if b[0] == "k" and b[4] is not None and "usize" in b[2]:
                    out.add(b[4])
    return out


def terminator_in_step(ctx, fid):
    """E6 TERMINATOR-IN-STEP: in the escaped-bytes format (00 -> 00 FF, FF -> FF 00, end = 00 00) a token boundary is known only
    by walking the tokens from the start: the pair `00 00` also occurs across the boundary of `FF 00` and a following `00 ..`.
    The consumed length returned with the decoded bytes must therefore derive from the cursor the decode loop steps token by
    token, not from an independent search of the raw bytes."""
    import dmlrules
    f = ctx.m.fn(fid)
    loops = f.loops()
    inloop = set()
    for _, body in loops:
        inloop |= set(body)
    cursors = set()
    for l, ds in f.defs().items():
        if len(ds) >= 2 and "usize" == f.locals[l] and any(d[1] in inloop for d in ds) and any(
                d[0] == "stmt" and l in dmlrules._deps(f, operand_place(d[3][1])[0], 40) for d in ds
                if d[0] == "stmt" and d[3][0] == "use" and operand_place(d[3][1]) is not None and d[1] in inloop):
            cursors.add(l)
    if not cursors:
        ctx.ob("E6.TERMINATOR-IN-STEP", fid.rsplit("::", 1)[-1], False, "the decoder has no cursor stepped inside a loop: the terminator "
               "cannot be located by a token-aligned walk", f.loc())
        return
    sites = []
    for bb, b in enumerate(f.blocks):
        for s in b["s"]:
            if s[0] == "=" and s[2][0] == "agg" and s[2][1] == "tuple" and len(s[2][4]) == 2:
                q = operand_place(s[2][4][1])
                if q is not None and not q[1] and f.locals[q[0]] == "usize":
                    sites.append((bb, s[3], q[0]))
    if not sites:
        raise CheckError("%s: (bytes, consumed) result not found" % fid)
    for bb, line, l in sites:
        dep = dmlrules._deps(f, l, 200)
        ok = bool(dep & cursors)
        ctx.ob("E6.TERMINATOR-IN-STEP", "%s@%d" % (fid.rsplit("::", 1)[-1], sites.index((bb, line, l))), ok,
               "consumed length derives from the token cursor" if ok else
               "the consumed length returned at L%s does not derive from the cursor the decode loop steps token by token: the terminator is "
               "located by a search that is not aligned to escape tokens (`FF 00` followed by `00 ..` contains `00 00` one byte early)" % line,
               "%s:%s" % (f.file, line))
