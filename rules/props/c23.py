"""C23 Decoders of stored bytes reject corruption without crashing — bounded static clause.

 B1 NO-OOB   for every decoder in the frozen scope (rules/props/c23_scope.json: varint, catalog deserialisers and loader, spill-row
             decoder, file/page/trunk/HNSW headers, TOAST pointer, SQ8 vectors, key-JSON decoder) every out-of-bounds panic site
             outside loops — MIR bounds-check Asserts, slice range indexing, try_into().unwrap() — is discharged by a dominating
             length check (interval + linear reasoning over SSA-versioned cursors).  A decoder that indexes stored bytes without a
             sufficient check panics on a truncated or corrupted file instead of returning an error.
Not decided: sites inside loops (need induction), arithmetic overflow of cursors (C20/C22's subject), decoders outside the scope
(B-tree node accessors, RecordView, JSONB, arrays, decode_key's recursive arms: the engine cannot bound them exactly, so they are
not claimed), unbounded allocation, and whether the returned value is right.
"""
import json, os
from model import CheckError
import intervals, codec

SCOPE = os.path.join(os.path.dirname(os.path.abspath(__file__)), "c23_scope.json")


def run(ctx):
    m = ctx.m
    ctx.clause = ("Every non-loop out-of-bounds panic site (bounds Assert, range index, try_into().unwrap()) of the scoped decoders is "
                  "dominated by a sufficient length check; decided by interval/linear evaluation of the MIR, no execution.")
    ctx.trusted.append("rules/intervals.py (anything it cannot bound stays undischarged)")
    scope = json.load(open(SCOPE))
    total = 0
    skipped_loop = 0
    missing = []
    for fid, n0 in sorted(scope.items()):
        f = m.fns.get(fid)
        if f is None:
            missing.append(fid)
            continue
        s = [x for x in intervals.discharge_asserts(f) + intervals.discharge_range_index(f) + intervals.discharge_unwraps(f)
             if x[1].startswith(("bounds", "range", "unwrap"))]
        inl = [x for x in s if codec.in_loop(f, x[0])]
        s = [x for x in s if not codec.in_loop(f, x[0])]
        skipped_loop += len(inl)
        total += len(s)
        bad = [x for x in s if not x[2]]
        short = fid.rsplit("::", 2)
        key = "::".join(short[-2:])
        if bad:
            for x in bad[:3]:
                ctx.ob("B1.NO-OOB", "%s:%s" % (key, x[1]), False,
                       "%s site not dominated by a sufficient length check (%s): a truncated or corrupted input makes this decoder panic"
                       % (x[1], x[3]), "%s:%s" % (f.file, x[4]))
        else:
            ctx.ob("B1.NO-OOB", key, True, "%d out-of-bounds panic site(s) all discharged" % len(s), f.loc())
    ctx.stat("sites_decided", total)
    ctx.stat("sites_in_loops_not_decided", skipped_loop)
    if missing:
        ctx.floor_failures.append("scoped decoder(s) not found (renamed?): %s" % missing[:4])
    ctx.floor("B1.sites", total, int(sum(scope.values()) * 0.6))
    node_readers_guarded(ctx)


def node_readers_guarded(ctx):
    """B3 NODE-READERS-GUARDED: the read-side B-tree node views (btree::interior::InteriorNode, btree::leaf::LeafNode — not the *Mut
    writers) take offsets and lengths from the page bytes.  Every range index into the page with a non-constant bound is
    dominated by an ordering comparison (the `ensure!(offset + len <= PAGE_SIZE)` / bail idiom) in the same function; a slice with
    bounds read from a corrupted slot and no such check panics.  This is the repo's idiom check (who-must-check), not a proof that
    the comparison is sufficient — sufficiency is B1's business for the functions in its frozen scope."""
    from model import operand_place
    m = ctx.m
    n = 0
    for f in sorted(m.fns.values(), key=lambda f: f.id):
        if f.kind == "closure":
            continue
        if not (f.id.startswith("btree::interior::InteriorNode::<'a>::") or f.id.startswith("btree::leaf::LeafNode::<'a>::")):
            continue
        k = 0
        for c in f.calls:
            if not ("ops::Index<std::ops::Range" in c.full or "ops::Index<std::ops::RangeFrom" in c.full or "ops::Index<std::ops::RangeTo" in c.full):
                continue
            if "[u8]" not in c.full:
                continue
            n += 1
            guarded = False
            for d in f.dominators().get(c.bb, ()):
                t = f.blocks[d]["t"]
                if t[0] == "switch" and t[2] == "bool":
                    pl = operand_place(t[1])
                    kk, p, neg = f.origin(pl[0]) if pl and not pl[1] else (None, None, False)
                    if kk == "rvalue" and p[0] == "bin" and p[1] in ("Gt", "Ge", "Lt", "Le"):
                        guarded = True
            ctx.ob("B3.NODE-READERS-GUARDED", "%s#%d" % (f.id.split("::", 2)[-1], k), guarded,
                   "page slice dominated by a bounds comparison" if guarded else
                   "a slice of the page with bounds taken from the page itself is not preceded by any bounds comparison: a corrupted slot "
                   "(offset/length beyond the page) panics here instead of returning an error", c.loc())
            k += 1
    ctx.floor("B3.reader_slice_sites", n, 5)
