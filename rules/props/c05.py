"""C05 DML results match a relational reference model — structural clauses.

 T1 TOMBSTONE-DISCIPLINE  DELETE writes tombstones; therefore every function that turns raw table-B-tree bytes into a live row
                          (strips the MVCC header with mvcc_helpers::get_user_data) must consult the delete flag of that record
                          (RecordHeader::is_deleted / a visibility check).  A reader that does not counts, updates or indexes
                          rows that were already deleted.
 T2 ROW-COUNT-ORIGIN      COUNT(*) is answered from the table header: every set_row_count argument derives from the header's own
                          current row_count() (or is the constant of TRUNCATE).
 T3 ROW-COUNT-CELLS       every entry point that creates or removes table rows reaches set_row_count.
Multiset equality of table contents and RETURNING rows are NOT decided.
"""
import dmlrules, common
from model import CheckError

TOLERATED = {
    "execute_update_with_from": "same reader shape as execute_update; not demonstrated",
    "fk_table_scan_check": "fallback FK scan; the indexed FK probe rejects a deleted parent (tried) — not demonstrated",
    "query_with_columns": "not demonstrated",
    "execute_insert_internal": "ON CONFLICT row fetch; not demonstrated",
    "execute_scalar_subquery_for_update": "not demonstrated",
    "undo_write_entry": "intentional raw reader: the undo of a delete must see the tombstone",
}


def run(ctx):
    m = ctx.m
    ctx.clause = ("Readers of raw table rows consult the tombstone flag; row-count stores derive from the header's own count; every "
                  "row-creating/removing entry point updates the count.")
    n = 0
    for f in sorted(m.fns.values(), key=lambda f: f.id):
        if f.kind == "closure":
            continue
        group = [f] + list(common.all_closures(m, f))
        strips = [c for g in group for c in g.calls if c.name.endswith("mvcc_helpers::get_user_data")]
        if not strips:
            continue
        n += 1
        checks = [c for g in group for c in g.calls if c.name.endswith("RecordHeader::is_deleted") or "is_visible" in c.name.rsplit("::", 1)[-1]
                  or c.name.endswith("check_row_visibility") or c.name.endswith("mvcc_helpers::is_tombstone")]
        tail = f.id.rsplit("::", 1)[-1]
        if not checks and tail in TOLERATED:
            ctx.ob("T1.TOMBSTONE-DISCIPLINE", tail, True, "tolerated (%s)" % TOLERATED[tail], f.loc())
            continue
        ctx.ob("T1.TOMBSTONE-DISCIPLINE", tail, bool(checks), "%d raw row read(s), delete flag consulted" % len(strips) if checks else
               "%d site(s) strip the MVCC header of a stored row and use it as a live row without consulting the delete flag: deleted rows "
               "are deleted again / updated back to life / indexed" % len(strips), strips[0].loc())
    ctx.floor("T1.reader_functions", n, 8)
    dmlrules.row_count_origin(ctx, "T2.ROW-COUNT-ORIGIN")
    dmlrules.sib_matrix(ctx, "T3.ROW-COUNT-CELLS", {k: ["row_count"] for k in ("insert", "insert_cached", "insert_batch", "bulk_insert", "delete")})
    # T4 (shared with C10 X2): UPDATE removes the old index entry before inserting the new one — with the reverse order an UPDATE
    # that rewrites an indexed column with its current value drops the row's only entry and a later INSERT of that key is accepted.
    dmlrules.index_delete_before_insert(ctx, "T4.DELETE-THEN-INSERT", [dmlrules.ENTRIES["update"]])
    answers_from_scan(ctx)
    dmlrules.key_cleared_per_row(ctx, "T6.KEY-CLEARED-PER-ROW")


def answers_from_scan(ctx):
    """T5 ANSWER-FROM-SCAN: DELETE and UPDATE report rows_affected / RETURNING from what the scan of the table B-tree found.  An index
    probe may narrow the scan to one key, but a miss in an index proves nothing (the probe key is built from the literal's type, the
    index from the stored value's; indexes can lag): every construction of the statement's Ok result is reached only through a
    cursor over the table (cursor_first / cursor_seek)."""
    m = ctx.m
    for e, variant in (("delete", "Delete"), ("update", "Update")):
        f = m.fn(dmlrules.ENTRIES[e])
        res = [(bb, s[3]) for bb, b in enumerate(f.blocks) for s in b["s"]
               if s[0] == "=" and s[2][0] == "agg" and s[2][1] == "adt" and s[2][2].endswith("ExecuteResult") and s[2][3] == variant]
        scans = [c.bb for c in f.calls if c.name.startswith("btree::") and c.name.rsplit("::", 1)[-1] in ("cursor_first", "cursor_seek")]
        if not res or not scans:
            raise CheckError("%s: result construction / table scan not found" % e)
        reach = f.reachable([0], blocked=scans)
        bad = [(bb, l) for bb, l in res if bb in reach]
        ctx.ob("T5.ANSWER-FROM-SCAN", e, not bad, "every result is produced after a cursor over the table (%d result site(s))" % len(res) if not bad else
               "%s can return its result (L%s) without opening a cursor on the table: an index miss or another shortcut is taken as proof that "
               "no row matches" % (e.upper(), bad[0][1]), "%s:%s" % (f.file, bad[0][1] if bad else f.line))
