"""C34 The freelist conserves pages — accounting-shape clauses over storage::freelist::Freelist.

 F1 COUNT-PAIRS      along every success path of every Freelist method the net change of `free_count` equals the net
                     change of listed pages: (+1 per TrunkHeader::set_count(count+1), -1 per set_count(count-1),
                     +1 per trunk linked [head_page := released page], -1 per trunk page that leaves the list
                     [head_page := next trunk / 0] or is handed out itself — one event when both happen).  Decided by enumerating the acyclic success paths (the methods are
                     loop-free) and summing events.
 F2 ONE-TRUNK        inside allocate/release every Storage::page/page_mut call on a success path takes its page number
                     from the same source (the head trunk): count, next pointer and entry are read from one page.
 F3 REMOVE-BEFORE-RETURN  allocate returns an entry only after set_count(count-1) (no double hand-out of the same slot).
 F4 FULL-CHECK       release consults TrunkHeader::is_full before writing an entry into the head trunk.
 F5 TRUNK-REUSABLE   allocate has a success path that hands out the head trunk page itself (a page that became a trunk
                     is counted free, so it must be allocatable).
History properties (no page handed out twice while allocated) are NOT decided.
"""
from paths import success_escapes, order_after, must_pass, describe_path, source_call, const_value
from model import CheckError, place_fields, operand_place
import common

FL = "storage::freelist::Freelist"


def all_success_paths(f, limit=4000):
    """acyclic paths entry -> return whose last _0 assignment is not Err (functions here are loop-free)"""
    from paths import block_ret_effect
    out = []
    succs = f.succs()
    st = [(0, (0,), "?")]
    while st:
        bb, path, last = st.pop()
        eff = block_ret_effect(f, bb)
        if eff:
            last = eff
        t = f.blocks[bb]["t"]
        if t[0] == "ret":
            if last != "err":
                out.append(path)
                if len(out) > limit:
                    raise CheckError("too many paths in %s" % f.id)
            continue
        for s in succs[bb]:
            if s in path:
                continue
            st.append((s, path + (s,), last))
    return out


def chase(f, op, depth=6):
    """follow whole-local copies; returns the final operand (const / projected place / arg local)"""
    while depth > 0:
        depth -= 1
        pl = operand_place(op)
        if pl is None or pl[1]:
            return op
        if 1 <= pl[0] <= f.nargs:
            return op
        ds = f.defs().get(pl[0], [])
        if len(ds) != 1 or ds[0][0] != "stmt" or ds[0][3][0] != "use":
            return op
        op = ds[0][3][1]
    return op


def delta_of(f, op, base_field=None):
    """(sign*const) if operand is `x ± const` computed by a checked add/sub (x optionally a read of base_field)"""
    op = chase(f, op)
    pl = operand_place(op)
    if pl is None or not pl[1] or pl[1][-1][0] != "f" or pl[1][-1][1] != 0:
        return None
    ds = f.defs().get(pl[0], [])
    if len(ds) != 1 or ds[0][0] != "stmt" or ds[0][3][0] != "bin":
        return None
    brv = ds[0][3]
    if brv[3][0] != "k" or brv[3][4] is None:
        return None
    if base_field is not None:
        ap = operand_place(chase(f, brv[2]))
        if not (ap and place_fields(ap) and place_fields(ap)[-1] == base_field):
            return None
    if brv[1].startswith("Add"):
        return brv[3][4]
    if brv[1].startswith("Sub"):
        return -brv[3][4]
    return None


def field_assigns(f, field):
    """bb -> list of ('add'|'sub'|'set', value) for assignments to self.<field>"""
    out = {}
    for bb, b in enumerate(f.blocks):
        for s in b["s"]:
            if s[0] != "=" or not s[1][1]:
                continue
            fl = place_fields(s[1])
            if not fl or fl[-1] != field:
                continue
            rv = s[2]
            kind = ("set", None, rv)
            if rv[0] == "use":
                op = chase(f, rv[1])
                if op[0] == "k":
                    kind = ("set", op[4], rv)
                else:
                    d = delta_of(f, op, field)
                    if d is not None:
                        kind = ("add", d, rv) if d >= 0 else ("sub", -d, rv)
                    else:
                        kind = ("set", ("op", op), rv)
            out.setdefault(bb, []).append(kind)
    return out


def run(ctx):
    m = ctx.m
    ctx.clause = ("Freelist accounting: on every success path of every method Δfree_count equals the change in listed pages "
                  "(entries ± trunk pages); count/next/entry come from one trunk page; an entry is unlisted before it is "
                  "returned; release checks is_full; an emptied trunk page is itself allocatable.")
    fns = [f for f in m.fns.values() if f.self_ty == FL and f.kind == "assoc"]
    ctx.floor("freelist_methods", len(fns), 8)
    FC = FL + "::free_count"
    HP = FL + "::head_page"

    # ---- F1 ----
    checked = 0
    for f in sorted(fns, key=lambda f: f.id):
        fa = field_assigns(f, FC)
        if not fa:
            continue
        tail = f.id.rsplit("::", 1)[-1]
        if tail in ("new", "with_head", "set_head"):
            continue  # constructors / raw setter: the caller supplies the pair (observation, not an accounting step)
        ha = field_assigns(f, HP)
        setc = {}
        for c in f.calls:
            if c.name.endswith("TrunkHeader::set_count") and len(c.args) > 1:
                d = delta_of(f, c.args[1])
                setc[c.bb] = d
        paths = all_success_paths(f)
        bad = None
        for p in paths:
            dfc = 0
            dlist = 0
            weird = False
            unlinked = handed = 0
            for bb in p:
                for k, v, rv in fa.get(bb, []):
                    if k == "add":
                        dfc += v
                    elif k == "sub":
                        dfc -= v
                    elif k == "set" and v == 1:
                        dfc += 1      # list was empty (free_count 0) on this path: precondition head_page == 0
                    elif k == "set" and v == 0:
                        weird = "reset"
                    else:
                        weird = "set"
                if bb in setc:
                    if setc[bb] is None:
                        weird = "set_count(?)"
                    else:
                        dlist += setc[bb]
                for k, v, rv in ha.get(bb, []):
                    # head_page := released page (arg)  => a trunk page is linked (+1 listed page)
                    if k == "set" and isinstance(v, tuple):
                        opl = operand_place(v[1])
                        if opl is not None and not opl[1] and 1 <= opl[0] <= f.nargs:
                            dlist += 1
                        else:
                            unlinked += 1     # head_page := next trunk: the current head trunk leaves the list
                    elif k == "set" and v == 0:
                        unlinked += 1         # head_page := 0: the last trunk leaves the list
            # pages handed out that are not entries: Ok(Some(head_page)) — detected as a return value originating
            # from a read of self.head_page
            for bb in p:
                for s in f.blocks[bb]["s"]:
                    if s[0] == "=" and s[2][0] == "agg" and s[2][2].endswith("option::Option") and s[2][3] == "Some" and s[2][4]:
                        pl = operand_place(s[2][4][0])
                        if pl is not None and not pl[1]:
                            k2, p2, _ = f.origin(pl[0])
                            if k2 == "field" and place_fields(p2) and place_fields(p2)[-1] == HP:
                                handed += 1
            # a trunk page that leaves the list and the trunk page that is handed out are the same event when both happen; a
            # trunk that is unlinked without being handed out (skipped) still leaves the list
            dlist -= max(unlinked, handed)
            if weird == "reset":
                # `free_count = 0` is only sound when nothing is listed any more; treat as a leak-hiding reset
                bad = (p, "free_count is reset to 0 on a success path (hides pages that were counted free)")
                break
            if weird:
                bad = (p, "unrecognised free_count/set_count update (%s)" % weird)
                break
            if dfc != dlist:
                bad = (p, "free_count changes by %+d but the listed pages change by %+d" % (dfc, dlist))
                break
        checked += len(paths)
        ctx.ob("F1.COUNT-PAIRS", f.id, bad is None, "%d success path(s): Δfree_count == Δlisted pages" % len(paths) if bad is None else bad[1],
               f.loc(), describe_path(f, list(bad[0])) if bad else None)
    ctx.floor("F1.paths_checked", checked, 4)

    # ---- F2 ----
    for tail in ("allocate", "release"):
        f = m.fn(FL + "::" + tail)
        srcs = {}
        for c in f.calls:
            if c.generic_name in ("storage::Storage::page", "storage::Storage::page_mut") or c.name.endswith("Storage>::page") or c.name.endswith("Storage>::page_mut"):
                pl = operand_place(c.args[1]) if len(c.args) > 1 else None
                src = "?"
                if pl is not None:
                    if pl[1]:
                        src = "field:" + "/".join(place_fields(pl))
                    else:
                        k2, p2, _ = f.origin(pl[0])
                        if k2 == "field":
                            src = "field:" + "/".join(place_fields(p2))
                        elif k2 == "arg":
                            src = "arg:%d" % p2
                        else:
                            nm = [d[0] for d in f.dbg if d[1][0] == pl[0] and not d[1][1]]
                            src = "local:" + (nm[0] if nm else str(pl[0]))
                srcs.setdefault(src, []).append(c)
        ctx.ob("F2.ONE-TRUNK", f.id, len(srcs) == 1 and list(srcs)[0] == "field:" + HP,
               "all page accesses use self.head_page (%d site(s))" % sum(len(v) for v in srcs.values()) if len(srcs) == 1 else
               "trunk fields are read from pages addressed through different sources %s: count/next/entry may come from different "
               "trunk pages" % sorted(srcs), f.loc())

    # ---- F3 ----
    a = m.fn(FL + "::allocate")
    res, _ = order_after(a, lambda c: c.name.endswith("u32::from_le_bytes") or c.name.endswith("num::<impl u32>::from_le_bytes"),
                         lambda c: c.name.endswith("TrunkHeader::set_count"), [])
    ctx.floor("F3.entry_reads", len(res), 1)
    for c, ok, esc in res:
        ctx.ob("F3.REMOVE-BEFORE-RETURN", a.id, ok, "entry read is followed by set_count on every success path" if ok else
               "an entry can be returned without being unlisted (handed out twice)", c.loc(), describe_path(a, esc[0]) if esc else None)

    # ---- F4 ----
    r = m.fn(FL + "::release")
    writes = [c for c in r.calls if c.name.endswith("copy_from_slice")]
    full = [c for c in r.calls if c.name.endswith("TrunkHeader::is_full")]
    ok = bool(writes) and bool(full) and all(any(r.dominates(x.bb, w.bb) for x in full) for w in writes)
    ctx.ob("F4.FULL-CHECK", r.id, ok, "entry write dominated by the is_full test" if ok else
           "release writes an entry without consulting is_full (overruns the trunk)", r.loc())

    # ---- F5 ----
    found = False
    for bb, b in enumerate(a.blocks):
        for s in b["s"]:
            if s[0] == "=" and s[2][0] == "agg" and s[2][2].endswith("option::Option") and s[2][3] == "Some" and s[2][4]:
                pl = operand_place(s[2][4][0])
                if pl is not None and not pl[1]:
                    k2, p2, _ = a.origin(pl[0])
                    if k2 == "field" and place_fields(p2) and place_fields(p2)[-1] == HP:
                        found = True
    ctx.ob("F5.TRUNK-REUSABLE", a.id, found, "allocate can hand out the (emptied) head trunk page" if found else
           "a page that became a trunk is counted in free_count but no path of allocate ever returns it", a.loc())
    trunk_init(ctx)


def trunk_init(ctx):
    """F6 TRUNK-INIT: a page that becomes the head trunk is a recycled page with arbitrary old contents; the two functions that
    install a new head trunk (they store to Freelist.head_page from their page_no argument) must both write a fresh page header
    and a fresh TrunkHeader (new + write_to).  Patching single fields of whatever the page held keeps a stale entry count: pages
    that were never released are handed out, or pages are handed out twice."""
    m = ctx.m
    need = ("PageHeader::new", "PageHeader::write_to", "TrunkHeader::new", "TrunkHeader::write_to")
    n = 0
    for f in sorted(m.fns.values(), key=lambda f: f.id):
        if not f.id.startswith("storage::freelist::Freelist::") or f.kind == "closure":
            continue
        installs = False
        for b in f.blocks:
            for s in b["s"]:
                if s[0] == "=" and s[1][1] and any(x.endswith("Freelist::head_page") for x in place_fields(s[1])) and s[2][0] == "use":
                    q = operand_place(s[2][1])
                    if q is not None and not q[1]:
                        k, p, _ = f.origin(q[0])
                        if (k == "arg") or (1 <= q[0] <= f.nargs):
                            installs = True
        names = {c.name for c in f.calls}
        if not installs or not any(nm.endswith("::page_mut") for nm in names):
            continue   # a plain setter (set_head loads the persisted head) installs nothing
        n += 1
        missing = [x for x in need if not any(nm.endswith(x) for nm in names)]
        ctx.ob("F6.TRUNK-INIT", f.id.rsplit("::", 1)[-1], not missing, "fresh page header and fresh TrunkHeader are written" if not missing else
               "%s installs a recycled page as head trunk without %s: the trunk keeps the entry count and entries of the page's previous "
               "life" % (f.id.rsplit("::", 1)[-1], missing), f.loc())
    ctx.floor("F6.trunk_installers", n, 2)
