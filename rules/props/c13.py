"""C13 Bound parameters behave like the equivalent literals — structural clauses.

 B1 DECODE-STRIPPED    every stored row value handed to a record decoder in the DML paths has had its MVCC header removed
                       (it originates from mvcc_helpers::get_user_data or a `[N..]` slice), never a raw Cursor::value():
                       the cached-plan UPDATE fast path decodes the raw value and therefore fails on every stored row.
 B2 ESCAPE-AGREEMENT   every byte that has a special meaning inside the lexer's single-quoted string scanner is escaped by
                       the renderer that turns bound text into SQL text (BoundStatement::query substitutes parameters
                       textually): otherwise bound text can terminate the literal and run as SQL.
 B3 PARAM-COUNT        both BoundStatement entry points compare the number of bound values with the statement's parameter
                       count before executing.
 B4 TEXT-PATH          (observation, tolerated) BoundStatement::query reaches Database::query with re-rendered SQL text.
Result equality between bound and literal execution is NOT decided.
"""
from model import CheckError, operand_place
from paths import source_call, must_pass
import codec

TOLERATED_B4 = ("the textual substitution path is by design; its one demonstrated divergence (whole-number floats re-parsed as "
                "integers) was repaired (fix: 8d9ef44); no further divergence demonstrated")


def run(ctx):
    m = ctx.m
    ctx.clause = ("Prepared-statement paths: record values are header-stripped before decoding; the text renderer escapes every byte the "
                  "string lexer treats specially; parameter counts are checked.")
    # B1
    n = 0
    for f in sorted(m.fns.values(), key=lambda f: f.id):
        if not (f.id.startswith("database::dml::") or f.id.startswith("database::batch::") or f.id.startswith("database::database::")):
            continue
        for c in f.calls:
            if not (c.name.endswith("::decode") and "Decoder" in c.full and len(c.args) >= 3):
                continue
            n += 1
            pl = operand_place(c.args[2])
            src = source_call(f, pl[0]) if pl and not pl[1] else None
            ok = src is not None and (src.name.endswith("mvcc_helpers::get_user_data") or "ops::Index" in src.name or src.name.endswith("::index"))
            ctx.ob("B1.DECODE-STRIPPED", f.id.rsplit("::", 1)[-1], ok, "decoded value comes from %s" % (src.name.rsplit("::", 2)[-1] if src else "?") if ok else
                   "a raw B-tree value (%s) is handed to the record decoder without removing the MVCC record header: decoding fails "
                   "('unknown record format') or misreads every stored row" % (src.name if src else "unknown origin"), c.loc())
    ctx.floor("B1.decode_sites", n, 3)
    # B2
    sc = [f for f in m.fns.values() if f.id.endswith("Lexer::<'a>::scan_string")]
    rd = [f for f in m.fns.values() if f.id.endswith("prepared::value_to_sql_literal")]
    if len(sc) != 1 or len(rd) != 1:
        raise CheckError("anchors scan_string/value_to_sql_literal: %d/%d" % (len(sc), len(rd)))
    special = set()
    for e in codec.emission_signature(sc[0]):
        if e[0] == "cond" and e[1] in ("Eq", "Ne") and isinstance(e[2], int):
            special.add(e[2])
        if e[0] == "match":
            special |= set(e[1])
    escaped = set()
    for c in rd[0].calls:
        if c.name.endswith("str::<impl str>::replace") and len(c.args) > 1 and c.args[1][0] == "k" and c.args[1][4] is not None:
            escaped.add(c.args[1][4])
    missing = sorted(special - escaped)
    ctx.ob("B2.ESCAPE-AGREEMENT", "scan_string~value_to_sql_literal", bool(special) and not missing,
           "string-literal special bytes %s are all escaped by the renderer" % sorted(special) if special and not missing else
           "the string lexer gives byte(s) %s a special meaning inside '...' that the bound-text renderer does not escape: bound text "
           "can end the literal early and be parsed as SQL" % [chr(x) for x in missing], sc[0].loc())
    # B3
    for tail in ("query", "execute"):
        fs = [f for f in m.fns.values() if f.id.endswith("prepared::BoundStatement::<'a>::" + tail)]
        if len(fs) != 1:
            raise CheckError("BoundStatement::%s anchor" % tail)
        f = fs[0]
        cmp_ = any(s[0] == "=" and s[2][0] == "bin" and s[2][1] in ("Eq", "Ne") for b in f.blocks for s in b["s"])
        runs = [c for c in f.calls if c.name.endswith("Database::query") or c.name.endswith("Database::execute_with_cached_plan") or c.name.endswith("Database::execute")]
        dom = cmp_ and bool(runs)
        ctx.ob("B3.PARAM-COUNT", tail, dom, "parameter count compared before execution" if dom else "no parameter-count check", f.loc())
    # B4
    q = [f for f in m.fns.values() if f.id.endswith("prepared::BoundStatement::<'a>::query")][0]
    textual = any(c.name.endswith("prepared::substitute_parameters") for c in q.calls)
    ctx.ob("B4.TEXT-PATH", "BoundStatement::query", True, ("tolerated: " + TOLERATED_B4) if textual else "parameters are bound, not substituted", q.loc())
