"""C04 Close, reopen and checkpoint preserve the logical database — structural clauses.

 H1 IDS-PERSISTED    every table/index id allocation (allocate_table_id / allocate_index_id) is followed, on every success path of
                     the allocating function, by save_meta: an id that is handed out but not persisted is handed out again after
                     reopen, and WAL frames (tagged by table id) of two files then overwrite each other at the next checkpoint.
 H2 META-FIELDS      save_meta writes exactly the header fields open_with_recovery reads back (next_table_id, next_index_id).
 H3 DROP-PERSISTS    dropping the last handle of an open database reaches save_catalog and FileManager::sync_all.
 H4 CHECKPOINT-ORDER (shared with C01 R6) log segments are destroyed only after a successful storage sync.
 H5 DDL-SAVES        (shared with C21 D) every catalog mutation in a DDL handler is followed by a catalog save.
Equality of query results across reopen is NOT decided.
"""
from paths import call_named, order_after, must_pass, describe_path, must_reach_closure, from_field
from model import CheckError
import common
from props import c01


def run(ctx):
    m = ctx.m
    ctx.clause = ("Persistence of allocation counters and catalog across close/reopen/checkpoint: ids persisted after every "
                  "allocation, meta fields written = read, handle drop persists, segments destroyed only after sync.")
    alloc = lambda c: c.name.endswith("Database::allocate_table_id") or c.name.endswith("Database::allocate_index_id")
    SAVE = must_reach_closure(m, lambda c: c.name.endswith("Database::save_meta"), [])
    n = 0
    for f in sorted(m.fns.values(), key=lambda f: f.id):
        if not any(alloc(c) for c in f.calls):
            continue
        A = [call_named(["Vec::<T, A>::is_empty", "SmallVec::<A>::is_empty"], False, desc="an id was allocated, so the list of new objects is not empty")]
        res, _ = order_after(f, alloc, lambda c: c.name.endswith("Database::save_meta") or c.name in SAVE, A)
        n += len(res)
        bad = [(c, e) for c, ok, e in res if not ok]
        ctx.ob("H1.IDS-PERSISTED", f.id.rsplit("::", 1)[-1], not bad, "%d id allocation(s) all followed by save_meta" % len(res) if not bad else
               "an id allocated at line %s can reach Ok without a later save_meta: after reopen the same id is allocated again" % bad[0][0].line,
               bad[0][0].loc() if bad else f.loc(), describe_path(f, bad[0][1][0]) if bad else None)
    ctx.floor("H1.allocation_sites", n, 5)
    sm = [f for f in m.fns.values() if f.id.endswith("Database::save_meta") and f.kind != "closure"]
    op = [f for f in m.fns.values() if f.id.endswith("Database::open_with_recovery") and f.kind != "closure"]
    if len(sm) != 1 or len(op) != 1:
        raise CheckError("save_meta/open_with_recovery anchors")
    wr = {c.name.rsplit("::set_", 1)[-1] for c in sm[0].calls if "MetaFileHeader::set_" in c.name}
    rdd = {c.name.rsplit("::", 1)[-1] for c in op[0].calls if "MetaFileHeader::next_" in c.name}
    ctx.ob("H2.META-FIELDS", "save_meta~open", wr == rdd and bool(wr), "fields written %s == fields read" % sorted(wr) if wr == rdd else
           "save_meta writes %s but open reads %s" % (sorted(wr), sorted(rdd)), sm[0].loc())
    drops = [f for f in m.fns.values() if f.trait.endswith("ops::Drop") and f.self_ty == "database::database::SharedDatabase"]
    if len(drops) != 1:
        raise CheckError("Drop for SharedDatabase anchor")
    d = drops[0]
    for what, pred in (("save_catalog", lambda c: c.name.endswith("SharedDatabase::save_catalog")), ("FileManager::sync_all", lambda c: c.name.endswith("FileManager::sync_all"))):
        hit = [c for c in d.calls if pred(c)]
        ctx.ob("H3.DROP-PERSISTS", what, bool(hit), "Drop calls %s" % what if hit else "Drop of the shared database does not call %s" % what, d.loc())
    common.truncate_after_sync(ctx, "H4.CHECKPOINT-ORDER", c01.R6_TOLERATED)
    checkpoint_shortcut(ctx)
    header_page_logging_all_or_none(ctx)


def checkpoint_shortcut(ctx):
    """H6 CHECKPOINT-SHORTCUT: Database::checkpoint may return Ok without truncating the log only when the log cannot hold
    frames that the table files do not: the accepted guards (confirmed by reading, frozen here) are
      * no WAL object / no file manager (nothing was ever logged through this handle),
      * ShardedDirtyTracker::is_empty()  (the tracker map has no entry: no page was written since open),
      * wal.current_offset() > 0 is false (the log is empty).
    Under the negation of all of them every success path passes Wal::truncate.  Any other shortcut leaves old page images in the
    log; after unlogged writes (PRAGMA wal = OFF) the next open replays them over newer data."""
    from paths import cmp_of_call, Assume, success_escapes, assumed_cuts
    m = ctx.m
    fs = [f for f in m.fns.values() if f.kind != "closure" and f.id.endswith("<impl database::database::Database>::checkpoint")]
    if len(fs) != 1:
        raise CheckError("Database::checkpoint: %d candidates" % len(fs))
    f = fs[0]
    A = [call_named("Option::<T>::as_mut", 1, desc="the WAL object / file manager exists", ),
         call_named("ShardedDirtyTracker::is_empty", False, desc="pages were written since open"),
         cmp_of_call("Gt", "Wal::current_offset", 0, True, desc="the log holds frames")]
    ok, esc, info = must_pass(f, lambda c: c.name.endswith("storage::wal::Wal::truncate"), A, nonempty_loops=False)
    ctx.stat("H6.assumed", len(info["assumed"]))
    ctx.ob("H6.CHECKPOINT-SHORTCUT", "checkpoint", ok and info["t_sites"] >= 1 and len(info["assumed"]) >= 4,
           "with a non-empty log every success path truncates it (accepted shortcuts: no WAL, no file manager, tracker empty, log empty)" if ok else
           "checkpoint can return Ok without truncating a non-empty log through a shortcut that is not one of the accepted guards (%s): the "
           "stale page images are replayed over newer unlogged writes at the next open" % (describe_path(f, esc[0]) if esc else "no truncate site"), f.loc())


def header_page_logging_all_or_none(ctx):
    """H7 HEADER-LOGGING-ALL-OR-NONE: the table header (page 0: row count, AUTO_INCREMENT, root page, rightmost hint) is written
    directly through the mmap by every DML path and is, by design, not dirty-tracked.  Checkpoint and reopen copy logged page images
    over the table file, so page 0 may be logged either by every function that writes a header field or by none: a page-0 image logged
    by one path only is stale by the next header update and is then replayed over the newer header."""
    from paths import const_value
    m = ctx.m
    markers = set()
    for f in m.fns.values():
        for c in f.calls:
            if c.name.endswith("ShardedDirtyTracker::mark_dirty") and len(c.args) >= 3:
                v = const_value(f, c.args[2])
                if v == 0:
                    markers.add(f.id if f.kind != "closure" else f.id.rsplit("::{closure", 1)[0])
    writers = set()
    for f in m.fns.values():
        if any(c.name.startswith("storage::headers::TableFileHeader::set_") for c in f.calls):
            host = f.id if f.kind != "closure" else f.id.rsplit("::{closure", 1)[0]
            if host.startswith("database::"):
                writers.add(host)
    ctx.stat("H7.header_writer_functions", len(writers))
    unlogged = sorted(writers - markers)
    ok = not markers or not unlogged
    ctx.ob("H7.HEADER-LOGGING-ALL-OR-NONE", "table header page", ok and len(writers) >= 5,
           "page 0 is logged by no header writer (%d header-writing functions)" % len(writers) if not markers else "every header writer logs page 0",
           ) if ok else ctx.ob("H7.HEADER-LOGGING-ALL-OR-NONE", "table header page", False,
           "%s mark(s) page 0 dirty for the WAL while %d other function(s) (e.g. %s) write header fields without doing so: the logged header image goes "
           "stale and checkpoint / reopen replay it over the current row count, AUTO_INCREMENT value and root page"
           % (sorted(x.rsplit("::", 1)[-1] for x in markers), len(unlogged), unlogged[0].rsplit("::", 1)[-1]), "src/database/dml/insert.rs")
