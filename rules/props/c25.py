"""C25 HNSW search returns live, correctly ranked neighbours — liveness-bookkeeping clauses only.

 N1 MAP-AFTER-ALLOCATE  in every insert path of PersistentHnswIndex, once a node has been allocated every success path records
                        row_id -> node_id in row_id_map (including the early return for the first node of an empty index):
                        a node missing from the map can never be deleted, so search keeps returning a dead row.
 N2 DELETE-BOTH         delete_by_row_id removes the map entry and marks the node deleted on every success path where the row
                        was found.
 N3 OPEN-REBUILDS       opening an index file repopulates row_id_map (insert inside a loop over stored nodes).
 N3b REBUILD-ALL-SLOTS the rebuild loop's upper bound is the page's slot count, not a count of live nodes.
 N4 DELETE-COUNTS       delete() marks the node, queues it for vacuum and decrements the node count together.
 N5 CANDIDATE-PAIRED    where the node given to Candidate::new is a reassigned variable, the distance given with it is
                        reassigned in the same places (the seed of the layer-0 beam search carries its own distance).
Ranking, recall, quantisation error and entry-point replacement are NOT decided (the entry-point observation of the design could
not be demonstrated and is not armed).
"""
from model import CheckError, operand_place
from paths import order_after, must_pass, describe_path, arg_origin, origin_fields, call_named

H = "hnsw::PersistentHnswIndex::"


def map_call(f, c, method):
    if not (c.name.endswith("HashMap::<K, V, S, A>::" + method) or c.name.endswith("HashMap::<K, V, S>::" + method)):
        return False
    k, p, _ = arg_origin(f, c, 0)
    return any(x.endswith("PersistentHnswIndex::row_id_map") for x in origin_fields(f, k, p))


def run(ctx):
    m = ctx.m
    ctx.clause = ("HNSW row-id bookkeeping: every allocated node is entered in row_id_map on all success paths, deletion removes the map "
                  "entry and marks the node, reopening rebuilds the map, delete() keeps mark/queue/count together.")
    n = 0
    for f in sorted(m.fns.values(), key=lambda f: f.id):
        if not f.id.startswith(H) or f.kind == "closure":
            continue
        allocs = [c for c in f.calls if c.name == H + "allocate_node"]
        if not allocs:
            continue
        res, _ = order_after(f, lambda c: c.name == H + "allocate_node", lambda c: map_call(f, c, "insert"), [])
        n += len(res)
        bad = [(c, e) for c, ok, e in res if not ok]
        ctx.ob("N1.MAP-AFTER-ALLOCATE", f.id.rsplit("::", 1)[-1], not bad, "allocated node is always entered in row_id_map" if not bad else
               "a success path after allocate_node returns without row_id_map.insert: that row can never be deleted from the index and "
               "search keeps returning it", bad[0][0].loc() if bad else f.loc(), describe_path(f, bad[0][1][0]) if bad else None)
    ctx.floor("N1.allocate_sites", n, 1)
    d = m.fn(H + "delete_by_row_id")
    rem = [c for c in d.calls if map_call(d, c, "remove")]
    dele = [c for c in d.calls if c.name == H + "delete" or c.name == H + "mark_deleted"]
    ok = bool(rem) and bool(dele)
    if ok:
        # the node delete is reachable only when the map lookup found the row, and the map removal happens on that path too
        ok = any(d.dominates(r.bb, x.bb) or d.dominates(x.bb, r.bb) for r in rem for x in dele)
    ctx.ob("N2.DELETE-BOTH", "delete_by_row_id", ok, "map entry removed and node deleted on the same path" if ok else
           "delete_by_row_id does not both remove the map entry and delete the node", d.loc())
    o = m.fn(H + "open")
    inl = False
    for k in m.reach_from([o.key]):
        g = m.fns[k]
        if not g.id.startswith("hnsw::"):
            continue
        ins = [c for c in g.calls if map_call(g, c, "insert")]
        if any(any(c.bb in body for _, body in g.loops()) for c in ins):
            inl = True
    ctx.ob("N3.OPEN-REBUILDS", "open", inl, "row_id_map is rebuilt in a loop over stored nodes" if inl else "open does not rebuild row_id_map", o.loc())
    # N3b: the rebuild walks the whole slot directory.  Tombstoned slots keep their index, so a bound taken from a count of live
    # nodes stops short of the most recently inserted rows after any deletion.
    rb = m.fn(H + "rebuild_row_id_map")
    from paths import source_call
    ranges = []
    for b in rb.blocks:
        for st in b["s"]:
            if st[0] == "=" and st[2][0] == "agg" and st[2][1] == "adt" and st[2][2] in ("std::ops::Range", "std::ops::RangeInclusive") and len(st[2][4]) == 2:
                q = operand_place(st[2][4][1])
                src = source_call(rb, q[0]) if q is not None and not q[1] else None
                ranges.append(src.name.rsplit("::", 1)[-1] if src is not None else "<non-call>")
    slot_loops = [r for r in ranges if r not in ("<non-call>",)]
    okb = bool(slot_loops) and all(r == "slot_count" for r in slot_loops)
    ctx.ob("N3b.REBUILD-ALL-SLOTS", "rebuild_row_id_map", okb, "the per-page loop runs to slot_count()" if okb else
           "the rebuild loop is bounded by %s instead of the slot count: rows in slots past that bound are missing from row_id_map after "
           "reopen, cannot be deleted, and an update leaves two live nodes for one row" % slot_loops, rb.loc())
    de = m.fn(H + "delete")
    need = ("mark_deleted", "enqueue", "decrement_node_count")
    have = {c.name.rsplit("::", 1)[-1] for c in de.calls}
    ctx.ob("N4.DELETE-COUNTS", "delete", all(x in have for x in need), "mark + vacuum queue + count kept together" if all(x in have for x in need) else
           "delete() misses %s" % [x for x in need if x not in have], de.loc())
    paired_candidate(ctx)


def _root(f, local, depth=6):
    """follow single-definition plain copies back to the variable the source names"""
    while depth > 0:
        depth -= 1
        ds = f.defs().get(local, [])
        if len(ds) != 1 or ds[0][0] != "stmt" or ds[0][3][0] != "use":
            return local
        q = operand_place(ds[0][3][1])
        if q is None or q[1]:
            return local
        local = q[0]
    return local


def paired_candidate(ctx):
    """N5 CANDIDATE-PAIRED: a Candidate is (node, distance-of-that-node).  Where the node handed to Candidate::new is a variable
    that is reassigned (the cursor of the greedy descent through the upper layers), the distance handed with it must be a variable
    reassigned in the same blocks: a distance that is not updated when the node moves belongs to a different node, and beam search
    never recomputes the distance of its seed, so the seed is ranked (or dropped from the top-k) by another node's distance."""
    m = ctx.m
    n = 0
    for f in sorted(m.fns.values(), key=lambda f: f.id):
        if not f.id.startswith("hnsw::"):
            continue
        for c in f.calls:
            if not c.name.endswith("hnsw::search::Candidate::new") or len(c.args) != 2:
                continue
            pn, pd = operand_place(c.args[0]), operand_place(c.args[1])
            if pn is None or pd is None or pn[1] or pd[1]:
                continue
            rn, rd = _root(f, pn[0]), _root(f, pd[0])
            nb = sorted({d[1] for d in f.defs().get(rn, [])})
            db = sorted({d[1] for d in f.defs().get(rd, [])})
            n += 1
            if len(nb) <= 1:
                ctx.ob("N5.CANDIDATE-PAIRED", "%s@%s" % (f.id.rsplit("::", 1)[-1], len([1 for o in ctx.obs if o["rule"] == "N5.CANDIDATE-PAIRED" and o["key"].startswith(f.id.rsplit("::", 1)[-1] + "@")])),
                       True, "node is assigned once", c.loc())
                continue
            missing = [b for b in nb if b not in db]
            if missing and len(db) == 1:
                import dmlrules
                if rn in dmlrules._deps(f, rd, 200):
                    missing = []   # the distance is computed from the node variable at the point of use
            names = {d[1][0]: d[0] for d in f.dbg if not d[1][1]}
            ctx.ob("N5.CANDIDATE-PAIRED", "%s@%s" % (f.id.rsplit("::", 1)[-1], len([1 for o in ctx.obs if o["rule"] == "N5.CANDIDATE-PAIRED" and o["key"].startswith(f.id.rsplit("::", 1)[-1] + "@")])),
                   not missing, "node `%s` and distance `%s` are reassigned together (%d site(s))" % (names.get(rn, rn), names.get(rd, rd), len(nb)) if not missing else
                   "Candidate::new(%s, %s): `%s` is reassigned at L%s but `%s` is not reassigned there — the candidate carries the distance of a "
                   "different node and beam search never recomputes its seed's distance" % (names.get(rn, rn), names.get(rd, rd), names.get(rn, rn),
                                                                                         f.blocks[missing[0]].get("l"), names.get(rd, rd)), c.loc())
    ctx.floor("N5.candidate_sites", n, 4)
