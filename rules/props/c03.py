"""C03 WAL replay applies exactly the longest valid frame prefix — structural clauses.

 T1 CURSOR-AFTER-RESIZE  every function of storage::wal that shrinks the segment file (File::set_len) repositions the
                         cursor (Seek::seek) before any Ok return: otherwise the next append leaves never-written bytes.
 T2 APPEND-TARGET-SEEK   every function that builds a `Wal` and obtains its segment from the non-truncating constructor
                         (WalSegment::open) seeks that file before returning it as the append target, and writes the
                         segment's logical offset (cursor and offset agree).
 T3 STOP-AT-INVALID      in every loop that reads frames (read_frame | read_frame_into | read_header_only) the failure
                         arm of the read leaves the loop: replay stops at the first invalid frame, never skips it.
 T4 CHECKSUM-GATE        a frame reader that returns page data returns Ok only if validate_checksum returned true.
 T5 FULL-READS           frame readers obtain bytes with read_exact; a plain Read::read (short reads allowed) outside a
                         retry loop is a violation (a torn tail would be completed from stale buffer contents).
 T6 FRAME-STRIDE         every update of WalSegment.offset and every scan offset in storage::wal advances by the same
                         constant (header + page): writer, reader and index agree on the frame stride.
 T7 NO-TRUNCATING-REOPEN OpenOptions::truncate(true)/File::create in storage::wal only in WalSegment::create; Wal::open
                         reaches it only on the `!exists` arm.
"""
from paths import (is_method, const_value, success_escapes, order_after, must_pass, describe_path, call_named, assumed_cuts, source_call,
                   disc_origin)
from model import CheckError, place_fields, operand_place
import common


def run(ctx):
    m = ctx.m
    ctx.clause = ("WAL reader/writer shape: cursor repositioned after set_len; append target of a reopened log is seeked "
                  "and its offset written; replay loops leave on the first failed read; Ok only after a passing checksum; "
                  "no short-read API; one frame stride everywhere; no truncating reopen.")
    wal = [f for f in m.fns.values() if f.id.startswith("storage::wal::") and f.kind != "closure"]
    ctx.floor("wal_functions", len(wal), 30)
    is_seek = lambda c: is_method(c, "io::Seek", "seek") or is_method(c, "io::Seek", "rewind")

    append_position(ctx)

    # T3
    readers = ("storage::wal::WalSegment::read_frame", "storage::wal::WalSegment::read_frame_into",
               "storage::wal::WalSegment::read_header_only")
    n = 0
    for f in sorted(m.fns.values(), key=lambda f: f.id):
        for c in f.calls:
            if c.name not in readers:
                continue
            loops = [(h, body) for h, body in f.loops() if c.bb in body]
            if not loops:
                continue
            h, body = min(loops, key=lambda x: len(x[1]))
            n += 1
            # find the switch on this call's Result
            fails = []
            cands = []
            for bb in body:
                t = f.blocks[bb]["t"]
                if t[0] != "switch" or t[2] == "bool":
                    continue
                pl = operand_place(t[1])
                if pl is None or pl[1]:
                    continue
                ds = f.defs().get(pl[0], [])
                if len(ds) != 1 or ds[0][0] != "stmt" or ds[0][3][0] != "disc":
                    continue
                src = source_call(f, ds[0][3][1][0])
                if src is not None and src.bb == c.bb:
                    cands.append(bb)
            # the inspecting switch is the one that dominates the others (later ones are drop-elaboration re-tests)
            cands = [b for b in cands if all(f.dominates(b, o) for o in cands)]
            for bb in cands:
                t = f.blocks[bb]["t"]
                if t[0] != "switch" or t[2] == "bool":
                    continue
                pl = operand_place(t[1])
                if pl is None or pl[1]:
                    continue
                ds = f.defs().get(pl[0], [])
                if len(ds) != 1 or ds[0][0] != "stmt" or ds[0][3][0] != "disc":
                    continue
                src = source_call(f, ds[0][3][1][0])
                if src is not None and src.bb == c.bb:
                    fails += [tgt for val, tgt in t[3] if val != 0]
                    if not any(val != 0 for val, _ in t[3]):
                        fails.append(t[4])
            if not fails:
                ctx.ob("T3.STOP-AT-INVALID", "%s:%s" % (f.id, c.name.rsplit("::", 1)[-1]), False,
                       "the Result of the frame read in a replay loop is never inspected", c.loc())
                continue
            outside = [b for b in range(len(f.blocks)) if b not in body]
            r_in = f.reachable(fails, blocked=outside)
            back = h in r_in
            key = "%s:%s" % (f.id, c.name.rsplit("::", 1)[-1])
            ctx.ob("T3.STOP-AT-INVALID", key, not back,
                   "a failed frame read leaves the frame loop" if not back else
                   "after a failed frame read the loop continues with the next frame: an invalid frame is skipped, later frames applied",
                   c.loc())
            outer = [(h2, b2) for h2, b2 in loops if h2 != h]
            if outer:
                r = f.reachable(fails)
                cont = h in r
                ctx.ob("T3.STOP-ACROSS-SEGMENTS", key, not cont,
                       "a failed frame read ends replay altogether" if not cont else
                       "after an invalid frame in one segment, replay proceeds with the next segment: frames after the first invalid "
                       "frame are applied (not the longest valid prefix)", c.loc())
    ctx.floor("T3.replay_loops", n, 6)

    # T4
    n = 0
    for f in wal:
        vs = [c for c in f.calls if c.name == "storage::wal::validate_checksum"]
        if not vs or "result::Result<" not in f.ret:
            continue
        for c in vs:
            n += 1
            A = [call_named("storage::wal::validate_checksum", False, desc="checksum mismatch")]
            cuts, applied = assumed_cuts(f, A)
            esc = success_escapes(f, [c.target], [], cuts) if applied else [["no-branch"]]
            ctx.ob("T4.CHECKSUM-GATE", f.id, not esc, "no Ok return when validate_checksum is false" if not esc else
                   "Ok is reachable although validate_checksum returned false (or its result is not branched on)", c.loc())
    for r in readers[:2]:
        f = m.fn(r)
        ok, esc, _ = must_pass(f, lambda c: c.name == "storage::wal::validate_checksum" or c.name in readers[:2], [])
        ctx.ob("T4.CHECKSUM-ON-EVERY-PATH", f.id, ok, "every Ok path of the frame reader passes validate_checksum" if ok else
               "a frame can be returned without checksum validation", f.loc(), describe_path(f, esc[0]) if esc else None)
    ctx.floor("T4.checksum_sites", n, 2)
    # T4b: whoever decides where the valid prefix ends must use a checksum-validating reader.  read_header_only checks the header
    # shape only; a frame with an intact header and a torn page image is "valid" for it.  It may be used for cost estimates, never
    # by Wal::open (which positions the writer), the replay/recovery loops or the checkpoint scans.
    validating = set(readers[:2])
    nv = 0
    for f in sorted(m.fns.values(), key=lambda f: f.id):
        if f.kind == "closure":
            continue
        weak = [c for c in f.calls if c.name == "storage::wal::WalSegment::read_header_only"]
        if not weak or f.id == "storage::wal::WalSegment::read_header_only":
            continue
        nv += 1
        positions = any(is_seek(c) for c in f.calls) or any(
            s_[0] == "=" and s_[1][1] and place_fields(s_[1]) and place_fields(s_[1])[-1].endswith("WalSegment::offset") for b in f.blocks for s_ in b["s"])
        writes_pages = any(c.name.endswith("::copy_from_slice") or c.name.endswith("Storage>::page_mut") or c.name.endswith("MmapStorage::page_mut") for c in f.calls)
        okw = not positions and not writes_pages
        ctx.ob("T4b.PREFIX-BY-CHECKSUM", f.id, okw, "header-only reader used without positioning the writer or replaying pages" if okw else
               "%s decides the end of the valid prefix (it positions the writer / replays pages) with read_header_only, which does not verify the "
               "frame checksum: a frame with a torn page image is accepted and later frames are appended behind it" % f.id.rsplit("::", 1)[-1], weak[0].loc())
    wo_ = m.fn("storage::wal::Wal::open")
    used = [c for c in wo_.calls if c.name.startswith("storage::wal::WalSegment::read_")]
    okv = bool(used) and all(c.name in validating for c in used)
    ctx.ob("T4b.OPEN-SCAN-VALIDATES", "Wal::open", okv, "the open-time scan reads frames with a checksum-validating reader" if okv else
           "Wal::open scans the latest segment with %s: the append position is placed behind frames whose checksum was never verified"
           % sorted({c.name.rsplit("::", 1)[-1] for c in used if c.name not in validating}), wo_.loc())

    # T5
    n = 0
    frame_readers = [f for f in wal if any(c.name == "storage::wal::validate_checksum" or "read_from_bytes" in c.name for c in f.calls)]
    for f in frame_readers:
        ex = [c for c in f.calls if is_method(c, "io::Read", "read_exact")]
        short = [c for c in f.calls if is_method(c, "io::Read", "read") and not any(c.bb in body for _, body in f.loops())]
        n += len(ex) + len(short)
        ctx.ob("T5.FULL-READS", f.id, not short, "%d read_exact call(s), no short-read API" % len(ex) if not short else
               "plain Read::read outside a retry loop in a frame reader: a torn frame is completed from whatever the buffer held",
               short[0].loc() if short else f.loc())
    ctx.stat("T5.read_sites", n)
    ctx.floor("T5.frame_reader_functions", len(frame_readers), 3)

    # T6
    strides = {}
    for f in [g for g in m.fns.values() if g.id.startswith("storage::wal::")]:
        for bb, b in enumerate(f.blocks):
            for s in b["s"]:
                if s[0] != "=" or s[2][0] != "bin" or not s[2][1].startswith("Add"):
                    continue
                a, bop = s[2][2], s[2][3]
                ka, kb = const_value(f, a), const_value(f, bop)
                if (ka is None) == (kb is None):
                    continue
                k = [None, None, None, None, kb if kb is not None else ka]
                v = a if kb is not None else bop
                pl = operand_place(v)
                if pl is None:
                    continue
                is_off = bool(place_fields(pl)) and place_fields(pl)[-1] == "storage::wal::WalSegment::offset"
                if not is_off and not pl[1]:
                    # local named offset*/ *_offset in debug info
                    nm = [d[0] for d in f.dbg if d[1][0] == pl[0] and not d[1][1]]
                    is_off = any(x == "offset" or x.endswith("_offset") for x in nm)
                if is_off and k[4] > 64:
                    strides.setdefault(k[4], []).append("%s:%s" % (f.id, s[3]))
    tot = sum(len(v) for v in strides.values())
    ctx.floor("T6.stride_sites", tot, 5)
    hdr = m.consts.get("storage::wal::WAL_FRAME_HEADER_SIZE", {}).get("val")
    pg = m.consts.get("config::constants::PAGE_SIZE", {}).get("val")
    want = (hdr + pg) if hdr and pg else None
    for v, sites in sorted(strides.items()):
        for s_ in sites:
            ok = (want is None and len(strides) == 1) or v == want
            ctx.ob("T6.FRAME-STRIDE", s_.rsplit(":", 1)[0] + ":+" + str(v), ok, "offset advances by header+page (%s)" % v if ok else
                   "offset advances by %s, other sites by %s" % (v, want), s_)

    # T7
    n = 0
    for f in [g for g in m.fns.values() if g.id.startswith("storage::wal::")]:
        for c in f.calls:
            trunc = c.name.endswith("fs::OpenOptions::truncate") or c.name.endswith("fs::File::create")
            if not trunc:
                continue
            if c.name.endswith("OpenOptions::truncate"):
                a = c.args[1] if len(c.args) > 1 else None
                if a and a[0] == "k" and a[4] == 0:
                    continue
            n += 1
            host = m.fns.get(f.parent, f) if f.kind == "closure" else f
            ok = host.id == "storage::wal::WalSegment::create"
            ctx.ob("T7.NO-TRUNCATING-REOPEN", host.id, ok, "truncating open only in the creating constructor" if ok else
                   "a truncating open outside WalSegment::create destroys previously written frames", c.loc())
    ctx.floor("T7.truncating_open_sites", n, 1)
    wo = m.fn("storage::wal::Wal::open")
    cr = [c for c in wo.calls if c.name == "storage::wal::WalSegment::create"]
    A = [call_named(["path::Path::exists", "PathBuf::exists"], True, desc="segment file exists")]
    cuts, applied = assumed_cuts(wo, A)
    r = wo.reachable([0], cut_edges=cuts)
    bad = [c for c in cr if c.bb in r]
    ctx.ob("T7.OPEN-NEVER-RECREATES", wo.id, bool(applied) and not bad, "Wal::open creates a segment only when none exists" if not bad and applied else
           "Wal::open can reach the truncating constructor for an existing segment", wo.loc())


def append_position(ctx, pre=""):
    """T1/T2: the OS file cursor and the logical append offset agree whenever a segment becomes the append target (shared with
    C01: a frame appended elsewhere than where replay reads is an acknowledged write that does not survive)."""
    m = ctx.m
    wal = [f for f in m.fns.values() if f.id.startswith("storage::wal::") and f.kind != "closure"]
    is_seek = lambda c: is_method(c, "io::Seek", "seek") or is_method(c, "io::Seek", "rewind")
    # T1
    n = 0
    for f in wal:
        res, _ = order_after(f, lambda c: c.name.endswith("fs::File::set_len"), is_seek, [])
        for c, ok, esc in res:
            n += 1
            ctx.ob(pre + "T1.CURSOR-AFTER-RESIZE", f.id, ok, "set_len is followed by a seek on every success path" if ok else
                   "File::set_len without repositioning the cursor: the next append lands at the old offset and leaves a hole of "
                   "never-written bytes", c.loc(), describe_path(f, esc[0]) if esc else None)
    ctx.floor(pre + "T1.set_len_sites", n, 1)

    # T2
    n = 0
    for f in wal:
        builds = any(s[0] == "=" and s[2][0] == "agg" and s[2][1] == "adt" and s[2][2] == "storage::wal::Wal"
                     for b in f.blocks for s in b["s"])
        opens = [c for c in f.calls if c.name == "storage::wal::WalSegment::open"]
        if not builds or not opens:
            continue
        n += 1
        res, _ = order_after(f, lambda c: c.name == "storage::wal::WalSegment::open", is_seek,
                             [call_named(["path::Path::exists", "PathBuf::exists"], True, desc="the segment file exists (reopen)")])
        bad = [(c, esc) for c, ok, esc in res if not ok]
        ctx.ob(pre + "T2.APPEND-TARGET-SEEK", f.id, not bad, "reopened segment is seeked before becoming the append target" if not bad else
               "a segment from the non-truncating constructor becomes the append target with its cursor where open() left it "
               "(byte 0): the first append overwrites valid frames", bad[0][0].loc() if bad else f.loc(),
               describe_path(f, bad[0][1][0]) if bad else None)
        wr = any(s[0] == "=" and s[1][1] and place_fields(s[1]) and place_fields(s[1])[-1] == "storage::wal::WalSegment::offset"
                 for b in f.blocks for s in b["s"])
        ctx.ob(pre + "T2.OFFSET-WRITTEN", f.id, wr, "logical offset of the reopened segment is set with the cursor" if wr else
               "cursor moved but WalSegment.offset not updated in the same function", f.loc())
    ctx.floor(pre + "T2.reopen_builders", n, 1)

