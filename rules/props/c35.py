"""C35 The page cache never evicts pinned pages or mixes contents — structural clauses over storage::cache.

 K1 RECHECK-UNDER-WRITE   in every function that inserts into a shard after a lock upgrade (read lookup, then shard.write()),
                          every path from taking the write lock to CacheShard::insert passes a lookup of the key
                          (CacheShard::get): otherwise two racing missers insert two entries for one key and a pinned
                          page loses its pin with the other holder's drop.
 K2 BUDGET-PAIR           after MemoryBudget::allocate(Cache) every exit — Ok and Err — passes CacheShard::insert (the
                          entry now owns the reservation) or MemoryBudget::release.
 K3 EVICT-ONLY-UNPINNED   CacheShard::evict can produce Some(key) only on the false arm of CacheEntry::is_pinned.
 K4 REMOVE-CALLERS        every CacheShard::remove call is dominated by an evict() that named the victim or by an
                          is_pinned() test of the entry, inside a region that holds the shard write guard.
 K5 CAPACITY              CacheShard::insert in get_or_insert is dominated by the is_full() test.
 K6 RELEASE-PER-REMOVE    every removal performed by PageCache is followed by MemoryBudget::release (when a budget exists).
 K7 PIN-ON-HANDOUT        every Ok(PageRef) returned by get/get_or_insert passes CacheEntry::pin.
Interleavings themselves are NOT decided.
"""
from paths import (success_escapes, order_after, must_pass, describe_path, call_named, assumed_cuts, from_field)
from model import CheckError, place_fields, operand_place
import common

SH = "storage::cache::CacheShard::"
PC = "storage::cache::PageCache::"


def run(ctx):
    m = ctx.m
    ctx.clause = ("Cache shape: key re-checked under the write lock before insert; budget reservation paired with insert or "
                  "release on every exit; eviction only of entries that tested unpinned; removals only of evict()-named or "
                  "is_pinned()-tested entries; insert behind is_full; release per removal; pin on hand-out.")
    cache_fns = [f for f in m.fns.values() if f.id.startswith("storage::cache::")]
    ctx.floor("cache_functions", len(cache_fns), 40)
    ins = lambda c: c.name == SH + "insert"
    getk = lambda c: c.name == SH + "get"
    wlock = lambda c: c.name.endswith("RwLock::<R, T>::write")
    A_budget = [from_field("PageCache::budget", 1, desc="a memory budget is configured (Some)")]

    # K1
    n = 0
    for f in cache_fns:
        if not any(ins(c) for c in f.calls) or not any(wlock(c) for c in f.calls):
            continue
        for w in [c for c in f.calls if wlock(c)]:
            tb = [c.bb for c in f.calls if getk(c)]
            reach = f.reachable([w.target], blocked=tb)
            bad = [c for c in f.calls if ins(c) and c.bb in reach]
            n += 1
            ctx.ob("K1.RECHECK-UNDER-WRITE", f.id, not bad, "insert is reachable from shard.write() only through a key lookup" if not bad else
                   "a path from shard.write() reaches CacheShard::insert without re-checking the key: concurrent missers insert "
                   "duplicate entries, one holder's unpin unpins the other's page", w.loc())
    ctx.floor("K1.upgrade_sites", n, 1)

    # K2
    n = 0
    for f in cache_fns:
        al = [c for c in f.calls if c.name.endswith("MemoryBudget::allocate")]
        for c in al:
            n += 1
            tb = [x.bb for x in f.calls if ins(x) or x.name.endswith("MemoryBudget::release")]
            # Err exit of allocate itself is fine (nothing reserved): start from the success arm (after `?`)
            start = c.target
            A = [call_named("MemoryBudget::allocate", 0, desc="allocate returned Ok")] + A_budget
            cuts, _ = assumed_cuts(f, A)
            esc = success_escapes(f, [start], tb, cuts, returns_result=False)
            ctx.ob("K2.BUDGET-PAIR", f.id, not esc, "reservation is handed to an inserted entry or released on every exit" if not esc else
                   "an exit after MemoryBudget::allocate passes neither CacheShard::insert nor MemoryBudget::release: the cache "
                   "pool stays charged for a page that is not cached", c.loc(), describe_path(f, esc[0]) if esc else None)
    ctx.floor("K2.allocate_sites", n, 1)

    # K3
    ev = m.fn(SH + "evict")
    pins = [c for c in ev.calls if c.name.endswith("CacheEntry::is_pinned")]
    ctx.floor("K3.is_pinned_tests", len(pins), 1)
    some_blocks = [bb for bb, b in enumerate(ev.blocks) for s in b["s"]
                   if s[0] == "=" and s[2][0] == "agg" and s[2][2].endswith("option::Option") and s[2][3] == "Some"]
    A = [call_named("CacheEntry::is_pinned", True, desc="entry is pinned")]
    cuts, applied = assumed_cuts(ev, A)
    ok = bool(applied) and bool(some_blocks)
    for c in pins:
        r = ev.reachable([c.target], blocked=[p.bb for p in pins], cut_edges=cuts)
        if any(b in r for b in some_blocks):
            ok = False
    # and every Some is dominated by an is_pinned test
    ok = ok and all(any(ev.dominates(c.bb, b) for c in pins) for b in some_blocks)
    ctx.ob("K3.EVICT-ONLY-UNPINNED", ev.id, ok, "a victim is named only on the unpinned arm of is_pinned()" if ok else
           "evict can name a pinned entry as victim", ev.loc())

    # K4
    n = 0
    for f in cache_fns:
        for c in f.calls:
            if c.name != SH + "remove":
                continue
            n += 1
            guards = [x for x in f.calls if x.name == SH + "evict" or x.name.endswith("CacheEntry::is_pinned")]
            dom = [x for x in guards if f.dominates(x.bb, c.bb)]
            if not dom:
                # selection loop idiom: `for e in entries { if !e.is_pinned() { to_remove.push(i) } }` before the removal loop
                for x in guards:
                    for h, body in f.loops():
                        if x.bb in body and c.bb not in body and f.dominates(h, c.bb):
                            dom.append(x)
            wl = [x for x in f.calls if wlock(x) and f.dominates(x.bb, c.bb)]
            ok = bool(dom) and bool(wl)
            ctx.ob("K4.REMOVE-CALLERS", "%s@%s" % (f.id, "evict" if any(x.name == SH + "evict" for x in dom) else "is_pinned" if dom else "none"),
                   ok, "removal dominated by %s under the shard write guard" % ("evict()" if any(x.name == SH + "evict" for x in dom) else "is_pinned()") if ok else
                   "CacheShard::remove reachable without a dominating evict()/is_pinned() test or without the write guard", c.loc())
    ctx.floor("K4.remove_sites", n, 3)

    # K5
    g = m.fn(PC + "get_or_insert")
    full = [c for c in g.calls if c.name == SH + "is_full"]
    okk = all(any(g.dominates(x.bb, c.bb) for x in full) for c in g.calls if ins(c)) and bool(full)
    ctx.ob("K5.CAPACITY", g.id, okk, "insert dominated by is_full()" if okk else "insert without a capacity test: a shard can exceed its capacity", g.loc())

    # K6
    n = 0
    for f in cache_fns:
        if not f.id.startswith(PC):
            continue
        res, _ = order_after(f, lambda c: c.name == SH + "remove", lambda c: c.name.endswith("MemoryBudget::release"), A_budget)
        for c, ok, esc in res:
            n += 1
            ctx.ob("K6.RELEASE-PER-REMOVE", f.id, ok, "removal followed by budget release on every success path" if ok else
                   "an entry is removed but its reservation is not released", c.loc(), describe_path(f, esc[0]) if esc else None)
    ctx.floor("K6.remove_sites", n, 3)

    # K7
    for tail in ("get", "get_or_insert"):
        f = m.fn(PC + tail)
        ok, esc, _ = must_pass(f, lambda c: c.name.endswith("CacheEntry::pin"), [call_named(SH + "get", 1, desc="lookup hit")] if tail == "get" else [])
        # `get` returns Option: success with None needs no pin — restrict to blocks building PageRef
        refs = [bb for bb, b in enumerate(f.blocks) for s in b["s"] if s[0] == "=" and s[2][0] == "agg" and s[2][2] == "storage::cache::PageRef"]
        pins = [c for c in f.calls if c.name.endswith("CacheEntry::pin")]
        okk = bool(refs) and all(any(f.dominates(p.bb, r) for p in pins) for r in refs)
        ctx.ob("K7.PIN-ON-HANDOUT", f.id, okk, "every PageRef construction is dominated by a pin()" if okk else
               "a PageRef is handed out without pinning the entry", f.loc())
