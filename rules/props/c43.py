"""C43 Bulk-load APIs equal row-at-a-time INSERT — sibling (SIB) clauses.

 M1 INSERT-SIBLINGS   every bulk/cached insert entry point reaches each effect kind the SQL INSERT path performs
                      (validation, CHECK, FK probe, index maintenance, HNSW, TOAST, AUTO_INCREMENT, row_count, write-entry
                      registration, MVCC header wrap, WAL wrapper, autocommit flush).  One obligation per (entry, effect).
 M2 REFERENCE-COMPLETE the SQL INSERT path itself performs every effect kind (so the comparison is not vacuous).
 M3 ROW-COUNT-ORIGIN  every set_row_count argument derives from the header's own row_count() (or a constant).
Observable equality of the resulting state is NOT decided.
"""
import dmlrules

REQ = ["validate", "check", "fk_parent", "index", "hnsw", "toast", "auto_inc", "row_count", "write_entry", "mvcc_wrap", "wal_wrap", "flush"]
# missing cells that hit on the pinned tree and were not demonstrated through the public API (DESIGN §6)
TOLERATED = {
    "insert_cached:fk_parent": "not demonstrated", "insert_cached:hnsw": "not demonstrated", "insert_cached:toast": "not demonstrated",
    "insert_cached:auto_inc": "not demonstrated", "insert_cached:write_entry": "not demonstrated", "insert_cached:mvcc_wrap": "not demonstrated",
    "insert_batch:fk_parent": "not demonstrated", "insert_batch:hnsw": "not demonstrated", "insert_batch:toast": "not demonstrated",
    "insert_batch:auto_inc": "not demonstrated", "insert_batch:write_entry": "not demonstrated",
    "bulk_insert:validate": "not demonstrated", "bulk_insert:check": "not demonstrated", "bulk_insert:fk_parent": "not demonstrated",
    "bulk_insert:hnsw": "not demonstrated", "bulk_insert:toast": "not demonstrated", "bulk_insert:auto_inc": "not demonstrated",
    "bulk_insert:write_entry": "not demonstrated", "bulk_insert:mvcc_wrap": "not demonstrated", "bulk_insert:wal_wrap": "not demonstrated",
    "bulk_insert:flush": "not demonstrated",
}


def run(ctx):
    ctx.clause = ("Effect-kind matrix of the five insert entry points: each bulk/cached path must reach what the SQL INSERT path "
                  "reaches; row-count updates derive from the header's own count.")
    n = dmlrules.sib_matrix(ctx, "M1.INSERT-SIBLINGS", {"insert_cached": REQ, "insert_batch": REQ, "bulk_insert": REQ}, TOLERATED)
    n += dmlrules.sib_matrix(ctx, "M2.REFERENCE-COMPLETE", {"insert": REQ})
    ctx.floor("matrix_cells", n, 40)
    dmlrules.row_count_origin(ctx, "M3.ROW-COUNT-ORIGIN")
    dmlrules.root_writeback(ctx, "M4.ROOT-WRITEBACK")
