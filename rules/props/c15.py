"""C15 ORDER BY, LIMIT, OFFSET and DISTINCT are exact — structural clauses (ordering only).

 O1 NULL-ORDER        the sort comparators (fn(&Value,&Value)->Ordering written as a match on the two variants) place NULL
                      first: abstract evaluation over the variant-tag domain yields exactly {Equal} for (Null,Null), {Less}
                      for (Null,x) and {Greater} for (x,Null), for every variant x.
 O2 DESC-BY-FLAG      every Ordering::reverse() in a sort comparison closure is control-dependent on a direction flag of the
                      sort key (field / variable named asc*/desc*/ascending), never applied unconditionally.
 O3 SORT-KEY-RESOLVED a sort key that cannot be found in the row must not silently become NULL (all keys equal => ORDER BY is
                      ignored): SortExecutor::get_sort_value must not default a missing column to Value::Null.
 O4 NUMERIC-CELLS     (Int,Float)/(Float,Int) cells of the sort comparators are not the constant Equal (tolerated today).
 O5 RUNNING-SELECTION in selection loops of the executor (the TopK heap sift-down) the element compared against each candidate is fetched
                      through the running selection variable, not through the index it was initialised from.
 O7 FORALL-KEYS       a planner predicate over the whole ORDER BY key list (fn(&[SortKey], ..) -> bool) answers `true` only after
                      the loop over the keys is exhausted: an early `true` decides operator placement from a prefix of the keys,
                      and the remaining keys are then evaluated against a row that no longer carries their columns.
LIMIT/OFFSET windows and DISTINCT are NOT decided beyond that.
"""
from model import CheckError, operand_place, place_fields
from paths import switch_cond_origin, origin_fields
import tagdom

TOLERATED_O4 = "mixed Int/Float sort keys compare Equal in SortExecutor::compare_values; no SQL statement producing mixed keys was found — not demonstrated"


def run(ctx):
    m = ctx.m
    ctx.clause = ("NULL ordering cells of the tag-matching sort comparators, DESC applied only under a direction flag, sort keys never "
                  "defaulted to NULL when unresolved.")
    comps = [f for f in m.fns.values() if f.kind != "closure" and f.nargs == 2 and f.ret.endswith("cmp::Ordering")
             and "Value" in f.locals[1] and "Value" in f.locals[2]]
    decided = 0
    for f in sorted(comps, key=lambda f: f.id):
        adt = "types::owned_value::OwnedValue" if "OwnedValue" in f.locals[1] else "types::value::Value"
        variants = [v["name"] for v in m.adts[adt]["variants"]]
        if tagdom.outcomes(f, m, adt, "Null", "Null") == {"dynamic"}:
            ctx.note("comparator %s is not a tag match (delegates): not decided" % f.id)
            continue
        decided += 1
        bad = []
        if tagdom.outcomes(f, m, adt, "Null", "Null") != {"Equal"}:
            bad.append("(Null,Null)=%s" % sorted(tagdom.outcomes(f, m, adt, "Null", "Null")))
        for x in variants:
            if x == "Null":
                continue
            a, b = tagdom.outcomes(f, m, adt, "Null", x), tagdom.outcomes(f, m, adt, x, "Null")
            if a != {"Less"}:
                bad.append("(Null,%s)=%s" % (x, sorted(a)))
            if b != {"Greater"}:
                bad.append("(%s,Null)=%s" % (x, sorted(b)))
        short = f.id.rsplit("::", 2)[-2:] if "::" in f.id else [f.id]
        key = "::".join(short).replace("<'a, E>", "")
        ctx.ob("O1.NULL-ORDER", key, not bad, "%d cells: NULL sorts before every non-NULL value" % (2 * len(variants) - 1) if not bad else
               "NULL ordering cells wrong: %s" % bad[:4], f.loc())
        mix = [tagdom.outcomes(f, m, adt, "Int", "Float"), tagdom.outcomes(f, m, adt, "Float", "Int")]
        okm = all(o != {"Equal"} for o in mix)
        ctx.ob("O4.NUMERIC-CELLS", key, True if not okm else True, ("tolerated: " + TOLERATED_O4) if not okm else "Int/Float cells compare by value", f.loc())
    ctx.floor("O1.tag_comparators", decided, 2)
    # O2
    n2 = 0
    for f in sorted(m.fns.values(), key=lambda f: f.id):
        revs = [c for c in f.calls if c.name.endswith("cmp::Ordering::reverse")]
        if not revs or not (f.id.startswith("sql::executor") or "sql::executor" in f.id or "query" in f.id or "sql::state" in f.id):
            continue
        for c in revs:
            n2 += 1
            flagged = False
            for s in f.dominators().get(c.bb, ()):
                t = f.blocks[s]["t"]
                if s == c.bb or t[0] != "switch":
                    continue
                succ = f.succ(s)
                if all(f.dominates(x, c.bb) for x in succ):
                    continue   # not a controlling branch
                o = switch_cond_origin(f, s) if t[2] == "bool" else None
                names = []
                if o:
                    k, p, _ = o
                    if k == "field":
                        names = place_fields(p) + [d[0] for d in f.dbg if d[1][0] == p[0]]
                    elif k == "call" and p is not None:
                        names = [p.name] + origin_fields(f, *__import__("paths").arg_origin(f, p, 0)[:2])
                    elif k == "arg":
                        names = [d[0] for d in f.dbg if d[1][0] == p]
                pl = operand_place(t[1])
                if pl and not pl[1]:
                    names += [d[0] for d in f.dbg if d[1][0] == pl[0]]
                    l_ = pl[0]
                    for _ in range(4):
                        ds_ = f.defs().get(l_, [])
                        if len(ds_) == 1 and ds_[0][0] == "stmt" and ds_[0][3][0] == "use" and operand_place(ds_[0][3][1]):
                            q_ = operand_place(ds_[0][3][1])
                            names += [d[0] for d in f.dbg if d[1][0] == q_[0] and (d[1][1] == q_[1] or not q_[1])]
                            l_ = q_[0]
                        else:
                            break
                if t[2] != "bool":
                    from paths import disc_origin
                    d_ = disc_origin(f, s)
                    if d_ and d_[0] == "field":
                        names += place_fields(d_[1])
                if o and o[0] in ("field", "call") and t[2] == "bool":
                    names += origin_fields(f, o[0], o[1])
                if o and o[0] == "field" and "closure_capture" in (place_fields(o[1]) + origin_fields(f, o[0], o[1])) and t[2] == "bool":
                    names.append("captured direction flag (asc)")
                if any(any(w in n.lower() for w in ("asc", "desc", "direction", "reverse", "order")) for n in names):
                    flagged = True
            ctx.ob("O2.DESC-BY-FLAG", "%s" % f.id.replace("<sql::executor::", "").rsplit("::", 2)[-2] + "::" + f.id.rsplit("::", 1)[-1], flagged,
                   "reverse() applied under a direction flag" if flagged else "Ordering::reverse() is not controlled by a sort-direction flag", c.loc())
    ctx.floor("O2.reverse_sites", n2, 5)
    # O3
    g = [f for f in m.fns.values() if f.id.endswith("SortExecutor::<'a, E>::get_sort_value")]
    if len(g) != 1:
        raise CheckError("get_sort_value anchor")
    g = g[0]
    dflt = [c for c in g.calls if c.name.endswith("Option::<T>::unwrap_or") or c.name.endswith("Option::<T>::unwrap_or_default")]
    null_default = False
    for c in dflt:
        a = c.args[1] if len(c.args) > 1 else None
        pl = operand_place(a) if a else None
        if pl is not None and not pl[1]:
            ds = g.defs().get(pl[0], [])
            if len(ds) == 1 and ds[0][0] == "stmt" and ds[0][3][0] == "agg" and ds[0][3][3] == "Null":
                null_default = True
    running_selection(ctx, "O5.RUNNING-SELECTION", lambda f: "sql::executor" in f.id)
    ctx.ob("O3.SORT-KEY-RESOLVED", "SortExecutor::get_sort_value", not null_default, "an unresolved sort key is not replaced by NULL" if not null_default else
           "a sort key column that is not present in the row silently becomes NULL: all keys compare equal and ORDER BY has no effect "
           "(e.g. ORDER BY a column that is not in the select list)", g.loc())
    forall_keys(ctx)


def running_selection(ctx, rule, scope_pred):
    """O5: selection idiom (heap sift, arg-max): a local S initialised from I and conditionally re-assigned from other candidates
    is the running best; once S may have been re-assigned, comparisons must fetch the current best through S, never through I
    again — otherwise the second candidate is compared with the stale element and the heap/top-k boundary is wrong."""
    m = ctx.m
    n = 0
    for f in sorted(m.fns.values(), key=lambda f: f.id):
        if not scope_pred(f):
            continue
        defs = f.defs()
        for S, ds in defs.items():
            if len(ds) < 3 or f.locals[S] != "usize":
                continue
            srcs = []
            for d in ds:
                if d[0] != "stmt" or d[3][0] != "use":
                    srcs = None
                    break
                q = operand_place(d[3][1])
                if q is None or q[1]:
                    srcs = None
                    break
                srcs.append((d[1], q[0]))
            if not srcs or len({x for _, x in srcs}) < 3:
                continue
            loops = [(h, b) for h, b in f.loops() if all(bb in b for bb, _ in srcs)]
            if not loops:
                continue
            h, body = min(loops, key=lambda x: len(x[1]))
            init = [(bb, x) for bb, x in srcs if all(f.dominates(bb, b2) for b2, _ in srcs)]
            if len(init) != 1:
                continue
            ibb, I = init[0]
            cond_assign = [bb for bb, x in srcs if bb != ibb]
            outside = [b for b in range(len(f.blocks)) if b not in body or b == h]
            after = f.reachable(cond_assign, blocked=outside)
            n += 1
            bad = []
            for c in f.calls:
                if c.bb in after and ("ops::Index<" in c.name or "Index<usize>" in c.full) and len(c.args) > 1:
                    q = operand_place(c.args[1])
                    l = q[0] if q and not q[1] else None
                    for _ in range(4):
                        if l == I:
                            bad.append(c)
                            break
                        dd = defs.get(l, []) if l is not None else []
                        if len(dd) == 1 and dd[0][0] == "stmt" and dd[0][3][0] == "use" and operand_place(dd[0][3][1]) and not operand_place(dd[0][3][1])[1]:
                            l = operand_place(dd[0][3][1])[0]
                        else:
                            break
            name = [d[0] for d in f.dbg if d[1][0] == S and not d[1][1]]
            ctx.ob(rule, "%s:%s" % (f.id.replace("<sql::executor::", "").rsplit("::", 2)[-2] + "::" + f.id.rsplit("::", 1)[-1], name[0] if name else "sel"), not bad,
                   "comparisons after a candidate was selected read the running best" if not bad else
                   "after the running selection may have moved, an element is still fetched through the initial index (line %s): the next "
                   "candidate is compared with a stale element and the wrong child is promoted" % bad[0].line, f.loc())
    ctx.floor(rule + ".selection_loops", n, 1)
    # O6: DISTINCT uses the per-value hash vector as the row's identity (no equality re-check), so it must not be computed with the
    # join hash, which deliberately conflates Int with Float (i as f64) and Null with FALSE; that hash may only be called from the
    # hash-join code, where a hash match is re-checked for equality.
    users = [f for f in m.fns.values() if any(c.name.endswith("query::helpers::hash_owned_value_normalized") for c in f.calls)]
    bad = [f for f in users if "hash_join" not in f.id]
    ctx.ob("O6.NORMALIZING-HASH-WHO", "hash_owned_value_normalized", not bad and bool(users),
           "called only from hash-join code (%d caller(s))" % len(users) if not bad and users else
           "the type-conflating join hash is used as a row identity outside the hash join (%s): DISTINCT drops rows whose values differ but "
           "hash alike (integers above 2^53, NULL vs FALSE)" % (bad[0].id if bad else "no caller found"), (bad[0] if bad else m.fn("database::query::helpers::hash_owned_value_normalized")).loc())


def forall_keys(ctx):
    from paths import exhausted_edges, const_value
    m = ctx.m
    n = 0
    for f in sorted(m.fns.values(), key=lambda f: f.id):
        if f.kind == "closure" or f.ret != "bool" or not any(t.startswith("&[sql::planner::logical::SortKey") for t in f.locals[1:f.nargs + 1]):
            continue
        loops = f.loops()
        outer = [h for h, body in loops if not any(h in b2 and h != h2 for h2, b2 in loops)]
        ex = [tgt for (bb, tgt), h in exhausted_edges(f).items() if h in outer]
        if not ex:
            continue
        n += 1
        trues = [(bb, s[3]) for bb, b in enumerate(f.blocks) for s in b["s"]
                 if s[0] == "=" and s[1][0] == 0 and not s[1][1] and s[2][0] == "use" and const_value(f, s[2][1]) == 1]
        inside = f.reachable(outer)
        bad = [(bb, l) for bb, l in trues if bb in inside and not any(f.dominates(t, bb) or t == bb for t in ex)]
        ctx.ob("O7.FORALL-KEYS", f.id.rsplit("::", 1)[-1], bool(trues) and not bad, "`true` is produced only after the key loop is exhausted" if trues and not bad else
               ("no `true` result found" if not trues else "the predicate returns true at L%s before the loop over the ORDER BY keys is exhausted: "
                "the remaining sort keys are not examined" % bad[0][1]), "%s:%s" % (f.file, bad[0][1] if bad else f.line))
    ctx.floor("O7.key_list_predicates", n, 1)
