"""C20 Scalar functions and arithmetic match their definitions — two structural clauses.

 A1 CHECKED-ARITH  in the SQL value evaluators (predicate / sort / UPDATE-SET evaluators, OwnedValue::eval_arithmetic, numeric
                   functions, SUM accumulation) every signed 64/128-bit arithmetic site is either discharged by interval
                   reasoning or uses a checked form: a MIR overflow / divide Assert, a call to the panicking operator impl on
                   &i64, or i64::pow/abs on a SQL integer panics (debug) or wraps (release) instead of reporting an error.
                   One obligation per (evaluator, operation).
 A2 UNIT-MIX       no function of sql::functions::string mixes byte lengths (str::len / String::len) with character iteration
                   (chars / char_indices): the character-based functions (SUBSTR, LEFT, RIGHT, LPAD, ...) count characters.
 A3 DURATION-HOURS-UNREDUCED  SEC_TO_TIME / TIMEDIFF (durations) never reach a reduction modulo 24 inside the datetime module.
Function *values* are NOT decided.
"""
import arith

EVALUATORS = [
    "sql::predicate::CompiledPredicate::<'a>::eval_binary_op",
    "sql::predicate::CompiledPredicate::<'a>::eval_unary_op",
    "sql::executor::SortExecutor::<'a, E>::eval_binary_op",
    "sql::executor::eval_binary_op_standalone",
    "types::owned_value::OwnedValue::eval_arithmetic",
    "sql::state::AggregateState::update",
    "database::dml::update::<impl database::database::Database>::eval_expr_with_row",
    "database::dml::update::eval_expr_for_record_streaming",
]


def run(ctx):
    m = ctx.m
    ctx.clause = ("SQL integer arithmetic sites in the value evaluators are checked or discharged; string functions do not mix "
                  "byte lengths with character iteration.")
    fns = []
    for fid in EVALUATORS:
        f = m.fn(fid)
        fns.append(f)
    fns += [f for f in m.fns.values() if f.id.startswith("sql::functions::numeric::eval_") and f.kind != "closure"]
    ctx.floor("A1.evaluators", len(fns), 12)
    nsites = 0
    for f in sorted(fns, key=lambda f: f.id):
        group = [f] + list(m.closures_of(f))
        per = {}
        for g in group:
            for kind, ok, why, line in arith.sites(g):
                nsites += 1
                k = kind.replace("(ref)", "")
                k = {"div_zero": "div", "rem_zero": "rem", "overflow_neg": "neg"}.get(k, k)
                per.setdefault(k, []).append((ok, why, line, g))
        short = f.id.replace("database::dml::update::<impl database::database::Database>::", "update::").replace("sql::predicate::CompiledPredicate::<'a>::", "predicate::")
        for k, lst in sorted(per.items()):
            bad = [x for x in lst if not x[0]]
            ctx.ob("A1.CHECKED-ARITH", "%s:%s" % (short, k), not bad,
                   "%d site(s) discharged" % len(lst) if not bad else
                   "unchecked signed %s on SQL integers (%d site(s)): %s" % (k, len(bad), bad[0][1]),
                   "%s:%s" % (f.file, (bad or lst)[0][2]))
    ctx.floor("A1.arith_sites", nsites, 20)
    # A2
    n2 = 0
    for f in sorted(m.fns.values(), key=lambda f: f.id):
        if not f.id.startswith("sql::functions::string::") or f.kind == "closure":
            continue
        group = [f] + list(m.closures_of(f))
        lens = [c for g in group for c in g.calls if c.name.endswith("str::<impl str>::len") or c.name.endswith("String::len")]
        chs = [c for g in group for c in g.calls if c.name.endswith("::chars") or c.name.endswith("::char_indices")]
        if not lens and not chs:
            continue
        n2 += 1
        # byte lengths that only size a buffer are not positions
        real = []
        for c in lens:
            users = [x for x in c.fn.calls if any((a[0] in ("c", "m") and a[1][0] == c.dest[0]) for a in x.args)]
            if users and all(u.name.endswith("::with_capacity") or u.name.endswith("::reserve") for u in users):
                continue
            real.append(c)
        ok = not (real and chs)
        ctx.ob("A2.UNIT-MIX", f.id.rsplit("::", 1)[-1], ok, "one unit only (%s)" % ("characters" if chs else "bytes") if ok else
               "byte length (line %s) combined with character iteration (line %s): positions are computed in bytes but consumed in "
               "characters — wrong results for non-ASCII text" % (real[0].line, chs[0].line), f.loc())
    ctx.floor("A2.string_functions", n2, 8)
    # A3 DURATION-HOURS-UNREDUCED: SEC_TO_TIME and TIMEDIFF format a duration, not a clock time: TIME_TO_SEC(SEC_TO_TIME(n)) = n
    # needs the hour field to carry everything above 59:59.  Nothing they execute inside the datetime module reduces by 24
    # (ADDTIME / SUBTIME, which wrap a clock time, do — a formatting helper shared with them brings that reduction along).
    from paths import const_value
    D = "sql::functions::datetime::"
    for tail in ("eval_sec_to_time", "eval_timediff"):
        f = m.fn(D + tail)
        hits = []
        nfn = 0
        for k in m.reach_from([f.key]):
            g = m.fns[k]
            if not g.id.startswith(D):
                continue
            nfn += 1
            for b in g.blocks:
                for st in b["s"]:
                    if st[0] == "=" and st[2][0] == "bin" and st[2][1] == "Rem" and const_value(g, st[2][3]) == 24:
                        hits.append((g, st[3]))
        ctx.ob("A3.DURATION-HOURS-UNREDUCED", tail, not hits, "no reduction modulo 24 in %d function(s) reached inside the datetime module" % nfn if not hits else
               "%s reaches `%% 24` in %s (L%s): durations of 24 hours or more lose whole days (SEC_TO_TIME(90000) = '01:00:00')"
               % (tail, hits[0][0].id.rsplit("::", 1)[-1], hits[0][1]), "%s:%s" % (hits[0][0].file, hits[0][1]) if hits else f.loc())
