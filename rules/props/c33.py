"""C33 Spilled rows round-trip through the spill format — CODEC table clauses over sql::row_serde::RowSerde.

 S1 TAG-INJECTIVE     every tag byte is emitted under exactly one Value variant (else the reader cannot restore the type).
 S2 READER-ARM        every tag the writer can emit has a non-default reader arm, and that arm constructs the same variant.
 S3 WIDTHS-AGREE      per tag: the fixed bytes the writer emits (integer conversions + fixed arrays; per-element widths in
                      loops) equal what the reader consumes (from_xx_bytes widths, constant cursor advances).
 S4 SIZE-AGREES       value_size yields, per variant, exactly the sizes the writer can produce for payloads without a
                      variable part (1 + fixed bytes).
 S5 EXACT-PAYLOADLESS a payload-free tag of a variant that otherwise carries a payload is chosen only by an exact test of
                      the payload (== constant, is_nan): a range test (|x| < eps) collapses distinct values.
 S6 ENDIAN            writer and reader use the same byte order for every integer of a tag.
 S8 CONSUME-ON-SUCCESS every success path of a reader arm performs each cursor advance of that arm (a value decoded but not
                      consumed shifts every later value).
 S7 SOLE-CODEC        partition_spiller / subquery::spill serialise rows only through RowSerde (WHO).
Value equality itself is NOT decided.
"""
from model import CheckError, operand_place, place_fields
from paths import const_value, switch_cond_origin, success_escapes, describe_path
import codec
import common

MOD = "sql::row_serde::"
VAL = "types::value::Value"


def run(ctx):
    m = ctx.m
    ctx.clause = ("Spill codec tables read off the MIR of serialize_value_into / deserialize_value / value_size: tag "
                  "injectivity, reader arm per tag constructing the same variant, per-tag width agreement, size function "
                  "agreement, exact tests for payload-free tags, byte order agreement, single codec.")
    w = m.fn(MOD + "RowSerde::serialize_value_into")
    r = m.fn(MOD + "RowSerde::deserialize_value")
    z = m.fn(MOD + "RowSerde::value_size")

    # ---------- writer table ----------
    sws = codec.enum_switches(w, VAL, m)
    if not sws:
        raise CheckError("writer dispatch on Value not found")
    bb, arms, other = max(sws, key=lambda x: len(x[1]))
    ctx.floor("writer_variant_arms", len(arms), 19)
    region_of = {v: set(codec.dominated(w, t)) for v, t in arms.items()}
    tags = codec.push_tags(w, m, MOD + "discriminant::")
    ctx.floor("writer_tag_pushes", len(tags), 25)
    wtab = {}   # tag name -> list of (variant, events)
    for c, name, val in tags:
        var = [v for v, reg in region_of.items() if c.bb in reg]
        if len(var) != 1:
            raise CheckError("tag push at %s not inside exactly one variant arm" % c.loc())
        dom = [b for b in codec.dominated(w, c.bb)]
        ev = codec.region_events(w, dom)
        wtab.setdefault((name, val), []).append((var[0], ev, c))

    # S1
    for (name, val), lst in sorted(wtab.items()):
        vs = sorted({v for v, _, _ in lst})
        ctx.ob("S1.TAG-INJECTIVE", name.rsplit("::", 1)[-1], len(vs) == 1,
               "tag 0x%02x emitted only under Value::%s" % (val, vs[0]) if len(vs) == 1 else
               "tag 0x%02x is emitted under %s: the reader can restore only one of these types" % (val, " and ".join("Value::" + v for v in vs)),
               lst[0][2].loc())
    byval = {}
    for (name, val) in wtab:
        byval.setdefault(val, []).append(name)
    for val, names in byval.items():
        if len(names) > 1:
            ctx.ob("S1.TAG-VALUES-DISTINCT", "0x%02x" % val, False, "two tag constants share the byte value: %s" % names, "")

    # ---------- reader table ----------
    isw = codec.int_switches(r, 10)
    if not isw:
        raise CheckError("reader tag switch not found")
    rbb, rarms, rother, _ = max(isw, key=lambda x: len(x[1]))
    ctx.floor("reader_tag_arms", len(rarms), 25)
    is_off = lambda f, pl: (pl[1] == ["*"] and f.locals[pl[0]].startswith("&mut usize")) or any(
        d[0] in ("offset", "pos") and d[1][0] == pl[0] for d in f.dbg)
    rtab = {}
    for val, tgt in rarms.items():
        dom = codec.dominated(r, tgt)
        ev = codec.region_events(r, dom)
        adv = codec.advances(r, dom, is_off)
        rtab[val] = (ev, adv, tgt)

    # S2 / S3 / S6
    for (name, val), lst in sorted(wtab.items()):
        short = name.rsplit("::", 1)[-1]
        if val not in rtab:
            ctx.ob("S2.READER-ARM", short, False, "tag 0x%02x has no reader arm (falls into the unknown-discriminant default)" % val, lst[0][2].loc())
            continue
        rev, radv, tgt = rtab[val]
        mk = [e["variant"] for e in rev if e["k"] == "mk" and e["adt"] == VAL]
        wv = sorted({v for v, _, _ in lst})
        ok = bool(mk) and all(v in mk for v in wv) and len(set(mk)) == 1
        ctx.ob("S2.READER-ARM", short, ok, "reader arm constructs Value::%s" % mk[0] if ok else
               "writer emits tag under %s but the reader arm constructs %s" % (wv, sorted(set(mk)) or "nothing"), "%s:%s" % (r.file, r.blocks[tgt].get("l")))
        for v, wev, c in lst:
            wt, wvar, wloop = codec.fixed_total(wev, ("w", "bytes"))
            wints = [(e["ty"], e["w"]) for e in wev if e["k"] == "w" and not e["loop"]]
            rints = [(e["ty"], e["w"]) for e in rev if e["k"] == "r" and not e["loop"]]
            radv_fixed = sum(k for k, lp, _ in radv if not lp)
            rloop = [e["w"] for e in rev if e["k"] == "r" and e["loop"]]
            ok_w = sorted(w_ for _, w_ in wints) == sorted(w_ for _, w_ in rints) or (not rints and radv_fixed == wt)
            # total fixed bytes: reader's constant advances minus the tag byte it consumed before the switch
            ok_t = (radv_fixed == wt) or (wvar and radv_fixed >= sum(w_ for _, w_ in wints))
            ok_l = sorted(wloop) == sorted(rloop) or (not wloop and not rloop)
            ok3 = ok_w and ok_t and ok_l
            ctx.ob("S3.WIDTHS-AGREE", "%s/%s" % (short, v), ok3,
                   "writer %s fixed=%d loop=%s == reader %s advance=%d loop=%s" % (wints, wt, wloop, rints, radv_fixed, rloop) if ok3 else
                   "writer emits ints %s, %d fixed byte(s), per-element %s; reader consumes ints %s, advances %d, per-element %s"
                   % (wints, wt, wloop, rints, radv_fixed, rloop), c.loc())
            we = {e["endian"] for e in wev if e["k"] == "w"}
            re_ = {e["endian"] for e in rev if e["k"] == "r"}
            if we or re_:
                ctx.ob("S6.ENDIAN", "%s/%s" % (short, v), we == re_ or not we or not re_, "byte order %s" % sorted(we | re_) if we == re_ else
                       "writer uses %s, reader uses %s" % (sorted(we), sorted(re_)), c.loc())
    # ---------- S8 every success path of a reader arm performs each of the arm's cursor advances ----------
    n8 = 0
    for val, (ev, adv, tgt) in sorted(rtab.items()):
        dom = set(codec.dominated(r, tgt))
        stores = sorted({bb for bb in dom for s in r.blocks[bb]["s"] if s[0] == "=" and is_off(r, tuple(s[1])) and not codec.in_loop(r, bb)})
        if not stores:
            continue
        n8 += 1
        bad = None
        for sb in stores:
            esc = success_escapes(r, [tgt], [sb])
            if esc:
                bad = (sb, esc[0])
                break
        ctx.ob("S8.CONSUME-ON-SUCCESS", "0x%02x" % val, bad is None, "%d cursor advance(s), each on every success path of the arm" % len(stores) if bad is None else
               "the reader arm can return Ok without performing the cursor advance at L%s (path %s): the bytes it decoded are not consumed and "
               "the next value is read from the wrong offset" % (r.blocks[bad[0]].get("l"), describe_path(r, bad[1])),
               "%s:%s" % (r.file, r.blocks[bad[0] if bad else tgt].get("l")))
    ctx.floor("S8.arms_with_advances", n8, 14)
    # reader arms for tags the writer never emits are harmless; count them
    ctx.stat("reader_only_tags", sorted("0x%02x" % v for v in rtab if v not in {val for _, val in wtab}))

    # ---------- S4 size function ----------
    zs = codec.enum_switches(z, VAL, m)
    if not zs:
        raise CheckError("value_size dispatch not found")
    zbb, zarms, _ = max(zs, key=lambda x: len(x[1]))
    n4 = 0
    for v, tgt in sorted(zarms.items()):
        dom = set(codec.dominated(z, tgt))
        sizes = set()
        variable = False
        for b in dom:
            for s in z.blocks[b]["s"]:
                if s[0] == "=" and s[1][0] == 0 and not s[1][1]:
                    val = None
                    if s[2][0] == "use":
                        val = const_value(z, s[2][1])
                    if val is None:
                        variable = True
                    else:
                        sizes.add(val)
        wsizes = set()
        wvariable = False
        for (name, val), lst in wtab.items():
            for vv, wev, c in lst:
                if vv != v:
                    continue
                wt, wvar, wloop = codec.fixed_total(wev, ("w", "bytes"))
                if wvar or wloop:
                    wvariable = True
                else:
                    wsizes.add(1 + wt)
        if not wsizes and not sizes:
            continue
        n4 += 1
        ok = (wsizes == sizes) or (wvariable and variable and sizes <= wsizes | sizes and wsizes <= sizes | wsizes and (not sizes or not wsizes or sizes == wsizes))
        ctx.ob("S4.SIZE-AGREES", v, ok, "value_size yields %s, writer produces %s%s" % (sorted(sizes), sorted(wsizes), " (+variable part)" if wvariable else "") ,
               "%s:%s" % (z.file, z.blocks[tgt].get("l")))
    ctx.floor("S4.size_arms", n4, 12)

    # ---------- S5 exact tests for payload-free tags ----------
    n5 = 0
    for (name, val), lst in sorted(wtab.items()):
        for v, wev, c in lst:
            wt, wvar, wloop = codec.fixed_total(wev, ("w", "bytes"))
            if wt or wvar or wloop:
                continue
            # does the variant have other tags with payload?
            sib = [x for (n2, v2), l2 in wtab.items() for x in l2 if x[0] == v and x[2].bb != c.bb]
            if not any(codec.fixed_total(x[1], ("w", "bytes"))[0] for x in sib):
                continue
            # the branch that leads into the push block: nearest dominating bool switch inside the variant region
            reg = region_of[v]
            conds = []
            for b in reg:
                t = w.blocks[b]["t"]
                if t[0] == "switch" and t[2] == "bool" and w.dominates(b, c.bb) and b != c.bb:
                    succs = w.succ(b)
                    # only switches one of whose arms leads exclusively to the push
                    if any(w.dominates(s_, c.bb) for s_ in succs):
                        conds.append(b)
            if not conds:
                continue
            last = max(conds, key=lambda b: len(w.dominators()[b]))
            o = switch_cond_origin(w, last)
            exact = False
            desc = "?"
            if o:
                kind, payload, neg = o
                if kind == "rvalue" and payload[0] == "bin":
                    desc = payload[1]
                    exact = payload[1] in ("Eq", "Ne")
                elif kind == "call" and payload is not None:
                    desc = payload.name.rsplit("::", 1)[-1]
                    exact = desc in ("is_nan", "eq", "ne", "is_empty", "is_none", "is_some")
            n5 += 1
            ctx.ob("S5.EXACT-PAYLOADLESS", "%s/%s" % (name.rsplit("::", 1)[-1], v), exact,
                   "payload-free tag selected by an exact test (%s)" % desc if exact else
                   "payload-free tag selected by a non-exact test (%s): distinct payload values collapse into one encoding" % desc, c.loc())
    ctx.floor("S5.payloadless_tags", n5, 3)

    # ---------- S7 ----------
    users = [f for f in m.fns.values() if (f.id.startswith("sql::partition_spiller::") or f.id.startswith("sql::subquery::spill::"))]
    raw = []
    uses = 0
    for f in users:
        for c in f.calls:
            if c.name.startswith(MOD + "RowSerde::"):
                uses += 1
            ic = codec.int_conv(c)
            if ic and ic[0] == "w" and "Value" in " ".join(f.locals[:f.nargs + 1]):
                raw.append(c)
    ctx.floor("S7.rowserde_uses_in_spillers", uses, 2)
    ctx.ob("S7.SOLE-CODEC", "spillers", True, "%d RowSerde call(s) from the spill modules" % uses, "")
