"""C32 JSON documents round-trip through JSONB — agreement clauses between the two writers and the reader of the format.

 J1 SIBLING-WRITERS   parsing::json::JsonValue::to_jsonb_bytes and records::jsonb::JsonbBuilder are two writers of one format:
                      their encode_value / encode_entry emission signatures (matches, integer conversions with type and byte order,
                      bit operations with their constants) are identical.
 J2 WIDTH-AGREE       per value type: the integers the writers append for an entry (NUMBER f64, STRING u16 length, ARRAY/OBJECT u32
                      length, object key u16 length) are the integers JsonbView::decode_entry / read_key_at read, same order and
                      byte order; every tag a writer emits has a reader arm.
 J3 HEADER-BITS       the root header is written as (type << 28) | count and read as (h >> 28) & 0xF and h & 0x0FFF_FFFF; entries
                      carry the type under one shared shift constant.
 J4 SORTED-KEYS       JsonbView::get is a binary search over the keys, so each writer sorts an object's entries before emitting.
 J5 LEN-FITS          a length stored in a narrower integer than usize must be bounded before the cast (`len as u16` of a string
                      or key wraps at 65 536 and the reader then slices the wrong bytes).
 J7 MASK-FITS         a value masked into the 24 payload bits of an entry word (`x & OFFSET_MASK`) must be compared with the
                      payload limit first: a data offset or inline value of 2^24 or more is stored modulo 2^24.
 J8 NO-BYTE-AS-CHAR   in the JSON parser / JSONB module a `u8 as char` reaches String::push only under an ASCII test of that byte.
Equality of parsed values (numbers, escapes, duplicate keys) is NOT decided.
"""
from model import CheckError, operand_place
from paths import const_value, source_call
import codec

P = "parsing::json::JsonValue::to_jsonb_bytes::"
B = "records::jsonb::JsonbBuilder::"
V = "records::jsonb::JsonbView::<'a>::"


def convs(f, kind):
    return [(e["ty"], e["endian"]) for e in codec.region_events(f, range(len(f.blocks))) if e["k"] == kind]


def run(ctx):
    m = ctx.m
    ctx.clause = ("JSONB codec: the two writers emit identically; per type the appended integers equal those the view reads; header and "
                  "entry bit layouts agree; objects are sorted for the view's binary search; lengths fit the integers they are stored in.")
    # J1
    for name in ("encode_value", "encode_entry"):
        a, b = m.fn(P + name), m.fn(B + name)
        sa, sb = codec.emission_signature(a), codec.emission_signature(b)
        diff = None
        if sa != sb:
            for i in range(max(len(sa), len(sb))):
                x = sa[i] if i < len(sa) else None
                y = sb[i] if i < len(sb) else None
                if x != y:
                    diff = (i, x, y)
                    break
        ctx.ob("J1.SIBLING-WRITERS", name, sa == sb, "%d emission events identical" % len(sa) if sa == sb else
               "the two JSONB writers disagree at event %d: %s (to_jsonb_bytes) vs %s (JsonbBuilder): a document stored through one path is "
               "read differently from the same document stored through the other" % diff, a.loc())
        ctx.floor("J1.events.%s" % name, len(sa), 8)
    # J2: writer conversions (both writers, already equal by J1 — take the builder) vs reader conversions
    wv = sorted(set(convs(m.fn(B + "encode_entry"), "w")))
    rd = sorted(set(convs(m.fn(V + "decode_entry"), "r")))
    ctx.ob("J2.WIDTH-AGREE", "entry payloads", wv == rd and bool(wv), "writer appends and reader reads %s" % wv if wv == rd else
           "entry payload integers differ: writer %s, reader %s" % (wv, rd), m.fn(V + "decode_entry").loc())
    wk = sorted(x for x in set(convs(m.fn(B + "encode_value"), "w")) if x[0] not in ("u32", "f64"))   # root header / root number aside
    rk = sorted(set(convs(m.fn(V + "read_key_at"), "r")))
    ctx.ob("J2.WIDTH-AGREE", "object keys", wk == rk and bool(rk), "key length %s on both sides" % rk if wk == rk else
           "object key length integer differs: writer %s, reader %s" % (wk, rk), m.fn(V + "read_key_at").loc())
    hw = ("u32", "le") in set(convs(m.fn(B + "encode_value"), "w"))
    hr = set(convs(m.fn(V + "header"), "r")) | set(convs(m.fn(V + "read_entry"), "r"))
    ctx.ob("J2.WIDTH-AGREE", "header/entries", hw and hr == {("u32", "le")}, "u32 little-endian words on both sides" if hw and hr == {("u32", "le")} else
           "header/entry words: writer u32 le %s, reader %s" % (hw, sorted(hr)), m.fn(V + "header").loc())
    # reader arms for every tag
    tags = {c["const"].rsplit("::", 1)[-1]: c["val"] for c in m.consts.values() if c["const"].startswith("records::jsonb::JSONB_TYPE_")}
    ctx.floor("J2.type_tags", len(tags), 6)
    sw = codec.int_switches(m.fn(V + "decode_entry"), 4)
    arms = max(sw, key=lambda x: len(x[1]))[1] if sw else {}
    for t, v in sorted(tags.items()):
        ctx.ob("J2.READER-ARM", t, v in arms, "decode_entry has an arm for tag %d" % v if v in arms else
               "tag %s (%d) is written but decode_entry has no arm for it" % (t, v), m.fn(V + "decode_entry").loc())
    # J3
    def shifts(f, op):
        out = []
        for b in f.blocks:
            for s in b["s"]:
                if s[0] == "=" and s[2][0] == "bin" and s[2][1] == op:
                    k = const_value(f, s[2][3])
                    if k is not None:
                        out.append(k)
        return out
    w_sh = sorted(set(shifts(m.fn(B + "encode_value"), "Shl")))
    r_sh = sorted(set(shifts(m.fn(V + "root_type"), "Shr")))
    r_mask = sorted(set(shifts(m.fn(V + "root_type"), "BitAnd")))
    c_mask = sorted(set(shifts(m.fn(V + "entry_count"), "BitAnd")))
    ok = w_sh == r_sh == [28] and r_mask == [15] and c_mask == [0x0FFFFFFF]
    ctx.ob("J3.HEADER-BITS", "root header", ok, "type at bit 28 (4 bits), count in the low 28 bits on both sides" if ok else
           "root header layout differs: writer shifts %s, reader shifts %s masks %s / count mask %s" % (w_sh, r_sh, r_mask, [hex(x) for x in c_mask]), m.fn(V + "root_type").loc())
    e_w = sorted(set(shifts(m.fn(B + "encode_entry"), "Shl")))
    e_r = sorted(set(shifts(m.fn(V + "entry_type"), "Shr")))
    ctx.ob("J3.HEADER-BITS", "entry type", e_w == e_r and bool(e_w), "entry type shift %s on both sides" % e_w if e_w == e_r else
           "entry type shift differs: writer %s reader %s" % (e_w, e_r), m.fn(V + "entry_type").loc())
    # J4
    for pre in (P, B):
        f = m.fn(pre + "encode_value")
        sorts = [c for c in f.calls if c.name.rsplit("::", 1)[-1] in ("sort_by", "sort", "sort_unstable_by", "sort_by_key", "sort_unstable", "sort_by_cached_key")]
        keyw = [c for c in f.calls if codec.int_conv(c) and codec.int_conv(c)[1] == "u16"]
        ok = bool(sorts) and bool(keyw) and all(f.dominates(sorts[0].bb, k.bb) for k in keyw)
        ctx.ob("J4.SORTED-KEYS", pre.split("::")[-2], ok, "object entries are sorted before the keys are emitted" if ok else
               "object keys are emitted without sorting first: JsonbView::get binary-searches them and misses keys", f.loc())
    # J5
    n5 = 0
    for pre in (P, B):
        for name in ("encode_value", "encode_entry"):
            f = m.fn(pre + name)
            k = 0
            for bb, b in enumerate(f.blocks):
                for s in b["s"]:
                    if s[0] == "=" and s[2][0] == "cast" and s[2][1] == "IntToInt" and s[2][3] in ("u16", "u8"):
                        q = operand_place(s[2][2])
                        src = source_call(f, q[0]) if q is not None and not q[1] else None
                        if src is None or src.name.rsplit("::", 1)[-1] != "len":
                            continue
                        n5 += 1
                        guarded = False
                        for d in f.dominators().get(bb, ()):
                            t = f.blocks[d]["t"]
                            if t[0] == "switch" and t[2] == "bool":
                                pl = operand_place(t[1])
                                kk, pp, _ = f.origin(pl[0]) if pl and not pl[1] else (None, None, False)
                                if kk == "rvalue" and pp[0] == "bin" and pp[1] in ("Gt", "Ge", "Lt", "Le"):
                                    guarded = True
                        tryf = any(c.name.endswith("TryFrom<usize>>::try_from") or c.name.endswith("TryInto<u16>>::try_into") for c in f.calls)
                        ctx.ob("J5.LEN-FITS", "%s%s#%d" % (pre.split("::")[-2] + "::", name, k), guarded or tryf,
                               "length bounded before the narrowing cast" if guarded or tryf else
                               "`len() as %s` without a bound: a string or key of 65 536 bytes or more is stored with a wrapped length and read back "
                               "truncated" % s[2][3], "%s:%s" % (f.file, s[3]))
                        k += 1
    ctx.floor("J5.narrowing_length_casts", n5, 4)
    # J7 MASK-FITS: an entry word has 24 payload bits; `x & OFFSET_MASK` silently drops the rest.  Whatever is masked into an
    # entry (a data-section offset, or any value a later change stores inline) must be bounded first.
    n7 = 0
    for pre, adt in ((P, "parsing::json::JsonValue"), (B, "records::jsonb::JsonbBuilderValue")):
        for name in ("encode_value", "encode_entry"):
            f = m.fn(pre + name)
            sws = codec.enum_switches(f, adt, m)
            arms = max(sws, key=lambda x: len(x[1]))[1] if sws else {}
            regions = {v: set(codec.dominated(f, t)) for v, t in arms.items()}
            seen_keys = {}
            for bb, b in enumerate(f.blocks):
                for st in b["s"]:
                    if not (st[0] == "=" and st[2][0] == "bin" and st[2][1] == "BitAnd"):
                        continue
                    ka, kb = const_value(f, st[2][2]), const_value(f, st[2][3])
                    if 0x00FFFFFF not in (ka, kb):
                        continue
                    x = st[2][2] if kb == 0x00FFFFFF else st[2][3]
                    q = operand_place(x)
                    if q is None:
                        continue   # a constant
                    src = source_call(f, q[0]) if not q[1] else None
                    sname = src.name.rsplit("::", 1)[-1] if src is not None else "value"
                    arm = sorted(v for v, r in regions.items() if bb in r)
                    base = "%s%s:%s:%s" % (pre.split("::")[-2] + "::", name, "/".join(arm) or "-", sname)
                    seen_keys[base] = seen_keys.get(base, 0) + 1
                    key = base if seen_keys[base] == 1 else "%s#%d" % (base, seen_keys[base])
                    n7 += 1
                    guarded = False
                    for d in f.dominators().get(bb, ()):
                        t = f.blocks[d]["t"]
                        if t[0] == "switch" and t[2] == "bool":
                            pl = operand_place(t[1])
                            kk, pp, _ = f.origin(pl[0]) if pl and not pl[1] else (None, None, False)
                            if kk == "rvalue" and pp[0] == "bin" and pp[1] in ("Gt", "Ge", "Lt", "Le") and (
                                    const_value(f, pp[2]) in (0x00FFFFFF, 0x01000000) or const_value(f, pp[3]) in (0x00FFFFFF, 0x01000000)):
                                guarded = True
                    ctx.ob("J7.MASK-FITS", key, guarded, "bounded against the 24-bit payload before masking" if guarded else
                           "`%s & OFFSET_MASK` without a bound: a value of 2^24 or more is stored modulo 2^24 and the reader follows / returns "
                           "the wrapped value" % sname, "%s:%s" % (f.file, st[3]))
    ctx.floor("J7.masked_payloads", n7, 8)
    # J8 NO-BYTE-AS-CHAR: JSON text is UTF-8.  `b as char` maps a byte to the code point of the same number, which is the byte's
    # character only below 0x80: a byte of a multi-byte character pushed into a String this way becomes a Latin-1 character
    # (mojibake stored in the JSONB).  In the JSON parser and the JSONB module a u8 cast to char reaches String::push only under
    # an ASCII test of that byte.
    n8 = 0
    pushed = 0
    for f in sorted(m.fns.values(), key=lambda f: f.id):
        if not (f.id.startswith("parsing::json::") or f.id.startswith("records::jsonb::")):
            continue
        for bb, b in enumerate(f.blocks):
            for st in b["s"]:
                if not (st[0] == "=" and st[2][0] == "cast" and not st[1][1] and f.locals[st[1][0]] == "char"):
                    continue
                q = operand_place(st[2][2])
                if q is None or q[1] or f.locals[q[0]] != "u8":
                    continue
                n8 += 1
                dest = st[1][0]
                sinks = []
                for c in f.calls:
                    if c.name.rsplit("::", 1)[-1] in ("push", "insert", "extend_one") and "String" in c.name and len(c.args) > 1:
                        a = operand_place(c.args[-1])
                        l = a[0] if a is not None and not a[1] else None
                        for _ in range(6):
                            if l is None or l == dest:
                                break
                            ds = f.defs().get(l, [])
                            if len(ds) == 1 and ds[0][0] == "stmt" and ds[0][3][0] == "use" and operand_place(ds[0][3][1]) and not operand_place(ds[0][3][1])[1]:
                                l = operand_place(ds[0][3][1])[0]
                            else:
                                l = None
                        if l == dest:
                            sinks.append(c)
                if not sinks:
                    continue
                pushed += 1
                guarded = False
                for d in f.dominators().get(bb, ()):
                    t = f.blocks[d]["t"]
                    if t[0] != "switch" or t[2] != "bool":
                        continue
                    pl = operand_place(t[1])
                    kk, pp, _ = f.origin(pl[0]) if pl and not pl[1] else (None, None, False)
                    if kk == "call" and pp is not None and pp.name.rsplit("::", 1)[-1].startswith("is_ascii"):
                        guarded = True
                    if kk == "rvalue" and pp[0] == "bin" and pp[1] in ("Lt", "Le", "Gt", "Ge") and (
                            const_value(f, pp[2]) in (0x7F, 0x80) or const_value(f, pp[3]) in (0x7F, 0x80)):
                        guarded = True
                ctx.ob("J8.NO-BYTE-AS-CHAR", "%s@%d" % (f.id.rsplit("::", 1)[-1], pushed), guarded, "byte pushed as char under an ASCII test" if guarded else
                       "%s pushes `byte as char` into a String without an ASCII test: every byte of a multi-byte UTF-8 character becomes a "
                       "separate Latin-1 character, and the corrupted text is what JSONB stores" % f.id.rsplit("::", 1)[-1], "%s:%s" % (f.file, st[3]))
    ctx.floor("J8.u8_as_char_casts_scanned", n8, 1)
    ctx.ob("J8.NO-BYTE-AS-CHAR", "scan", True, "%d u8-as-char cast(s) in the JSON parser / JSONB module, %d of them pushed into a String" % (n8, pushed), "")
    path_is_stepwise(ctx)


def path_is_stepwise(ctx):
    """J6 PATH=STEPWISE: JsonbView::get_path(path) must agree with looking the steps up one by one with get().  In get_path, whenever
    the current value is an Object every continuing path performs the step with JsonbView::get(key) — no other dispatch on the key's
    spelling (an all-digit key is still an object key)."""
    from paths import success_escapes, describe_path
    m = ctx.m
    f = m.fn(V + "get_path")
    sw = codec.enum_switches(f, "records::jsonb::JsonbValue", m)
    gets = [c for c in f.calls if c.name == V + "get" or c.name.endswith("JsonbView::<'a>::get")]
    arms = [x for x in sw if "Object" in x[1]]
    if not arms or not gets:
        # a (value, key) tuple match lowers differently: fall back to requiring that no other lookup API is used
        other = [c for c in f.calls if c.name.endswith("JsonbView::<'a>::array_get") or c.name.rsplit("::", 1)[-1] in ("parse",)]
        ok = bool(gets) and not other
        ctx.ob("J6.PATH=STEPWISE", "get_path", ok, "every step is a get()" if ok else
               "get_path dispatches on the spelling of the key (%s): an object key made of digits is looked up as an array index and not found"
               % (other[0].name.rsplit("::", 1)[-1] if other else "no get"), f.loc())
        return
    bad = None
    for bb, a, other in arms:
        esc = success_escapes(f, [a["Object"]], [c.bb for c in gets], ())
        # leaving the arm towards the loop header / return without get()
        reach = f.reachable([a["Object"]], blocked=[c.bb for c in gets])
        loops = f.loops()
        items = list(loops.items()) if isinstance(loops, dict) else list(loops)
        hdrs = {h for h, body in items if bb in body}
        if esc or (hdrs & reach):
            bad = describe_path(f, esc[0]) if esc else "back to the loop header"
    others = [c for c in f.calls if c.name.endswith("JsonbView::<'a>::array_get")]
    ok = bad is None and not others
    ctx.ob("J6.PATH=STEPWISE", "get_path", ok, "an Object step is always a get(key)" if ok else
           "with an Object as the current value get_path can continue without get(key)%s: an object key made of digits is treated as an "
           "array index and not found, while stepwise lookup finds it" % (" (%s)" % bad if bad else " (array_get is consulted)"), f.loc())
