"""C31 Row records round-trip through the record format — agreement clauses.

 R1 SETTER-GETTER   for every RecordBuilder::set_X that has a RecordView::get_X, the sequence of element types written
                    (to_le_bytes / to_be_bytes types, in order) equals the sequence the getter reads: same widths, same order
                    of components (timestamptz, interval, point, box, circle, enum, ...), same byte order.
 R2 RESET-WHOLE     RecordBuilder::reset and RecordBuilderState::reset clear the whole fixed-data buffer with one unconditional
                    fill (reached on every path, receiver is the whole buffer, not a sub-range chosen from tracked state):
                    "building after a reset yields the same bytes as building fresh" needs every byte new() zeroes to be
                    zeroed again.
 R3 RESET-FIELDS    reset touches every buffer field that new() initialises (null bitmap, fixed data, var data, column states).
Value equality of round-tripped rows is NOT decided.
"""
from model import CheckError, operand_place, place_fields
from paths import must_pass, describe_path, source_call
import codec

B = "records::builder::"
V = "records::view::RecordView::<'a>::"


def conv_seq(m, f, kind, depth=1):
    out = []
    for c in sorted(f.calls, key=lambda c: (c.line, c.bb)):
        ic = codec.int_conv(c)
        if ic and ic[0] == kind:
            out.append((ic[1], ic[3]))
        elif depth > 0 and c.name in m.fns and ("RecordView" in c.name or "RecordBuilder" in c.name) and not c.name.endswith("get_var_bounds"):
            out += conv_seq(m, m.fns[c.name], kind, depth - 1)
    return out


def run(ctx):
    m = ctx.m
    ctx.clause = ("Record format: each setter writes the element types its getter reads, in the same order and byte order; reset clears "
                  "the whole fixed buffer unconditionally and touches every buffer field new() initialises.")
    n = 0
    for f in sorted(m.fns.values(), key=lambda f: f.id):
        if not f.id.startswith(B + "RecordBuilder::<'a>::set_") or f.kind == "closure":
            continue
        x = f.id.rsplit("::set_", 1)[-1]
        g = m.fns.get(V + "get_" + x)
        if g is None:
            continue
        w, r = conv_seq(m, f, "w"), conv_seq(m, g, "r")
        if not w or not r:
            continue  # raw bytes handed through (text, blob, jsonb, ...) or a view type decodes lazily: no element table on one side
        n += 1
        ok = w == r
        ctx.ob("R1.SETTER-GETTER", x, ok, "writes %s == reads" % [t for t, _ in w] if ok else
               "set_%s writes %s but get_%s reads %s: a stored value comes back as a different value" % (x, w, x, r), f.loc())
    ctx.floor("R1.pairs", n, 15)
    for rid in (B + "RecordBuilder::<'a>::reset", B + "RecordBuilderState::reset"):
        f = m.fn(rid)
        short = rid.split("builder::")[-1].replace("::<'a>", "")
        fills = []
        for c in f.calls:
            if not (c.name.endswith("<impl [T]>::fill") or c.name.endswith("Vec::<T, A>::clear") and False):
                continue
            pl = operand_place(c.args[0]) if c.args else None
            src = source_call(f, pl[0]) if pl and not pl[1] else None
            whole = src is not None and (src.name.endswith("DerefMut>::deref_mut") or src.name.endswith("::as_mut_slice"))
            fld = False
            if whole and src.args:
                from paths import arg_origin, origin_fields
                k, p, _ = arg_origin(f, src, 0)
                fld = any(y.endswith("::fixed_data") for y in origin_fields(f, k, p))
            if whole and fld:
                fills.append(c)
        ok, esc, _ = must_pass(f, lambda c: c in fills, []) if fills else (False, [], None)
        ctx.ob("R2.RESET-WHOLE", short, ok, "the whole fixed-data buffer is zeroed on every path" if ok else
               "reset does not unconditionally zero the whole fixed-data buffer (it clears per column from tracked state, or not at "
               "all): bytes left behind by an earlier record make the next record differ from a fresh build", f.loc())
        touched = set()
        group = [f] + [m.fns[c.name] for c in f.calls if c.name in m.fns and c.name.startswith(B)]
        for g in group:
            for b in g.blocks:
                for s in b["s"]:
                    if s[0] == "=" and s[2][0] == "ref" and s[2][1]:
                        touched |= {y.rsplit("::", 1)[-1] for y in place_fields(s[2][2]) if "RecordBuilder" in y}
                    if s[0] == "=" and s[1][1]:
                        touched |= {y.rsplit("::", 1)[-1] for y in place_fields(s[1]) if "RecordBuilder" in y}
        need = {"null_bitmap", "fixed_data", "var_data", "column_values"}
        ctx.ob("R3.RESET-FIELDS", short, need <= touched, "reset touches %s" % sorted(need) if need <= touched else
               "reset leaves %s untouched" % sorted(need - touched), f.loc())
    # R4 sibling builders and the offset-table width
    b1, b2 = m.fn(B + "RecordBuilder::<'a>::build"), m.fn(B + "RecordBuilder::<'a>::build_into")
    s1 = [e for e in codec.emission_signature(b1) if e[0] in ("conv", "w", "push", "int")]
    s2 = [e for e in codec.emission_signature(b2) if e[0] in ("conv", "w", "push", "int")]
    w1, w2 = conv_seq(m, b1, "w", 0), conv_seq(m, b2, "w", 0)
    ctx.ob("R4.SIBLING-BUILDERS", "build~build_into", w1 == w2 and s1 == s2, "both emit %s" % w1 if w1 == w2 and s1 == s2 else
           "build emits %s, build_into emits %s: the two builders of one record format disagree" % (w1, w2), b1.loc())
    gvb = m.fn(V + "get_var_bounds")
    hl = [f for f in m.fns.values() if f.id.startswith(V) and f.id.endswith("header_len")]
    rd = set(conv_seq(m, gvb, "r", 0))
    for h in hl:
        rd |= set(conv_seq(m, h, "r", 0))
    ok = set(w1) == rd and bool(rd)
    ctx.ob("R5.OFFSET-WIDTH", "header/offset table", ok, "builder writes and view reads %s" % sorted(rd) if ok else
           "builder writes header/offsets as %s but the view reads %s" % (sorted(set(w1)), sorted(rd)), gvb.loc())
