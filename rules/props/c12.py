"""C12 AUTO_INCREMENT values are unique and increasing — structural clauses.

 U1 RUNNING-MAX     the value persisted by set_auto_increment is a running maximum: every update of its source variable is
                    guarded by a comparison against that same variable (a smaller explicit id can never lower the counter).
 U2 NON-DECREASING  the call set_auto_increment(new) in the INSERT path is dominated by a comparison new > header.auto_increment().
 U3 WRITERS         set_auto_increment is called only by the INSERT path and by TRUNCATE ... RESTART IDENTITY; rollback/undo,
                    DELETE and the bulk paths never lower it (WHO).
Reuse after a failing multi-row statement / across reopen is NOT decided here (C06 decides statement atomicity).
"""
import dmlrules, common
from paths import source_call
from model import operand_place


def run(ctx):
    m = ctx.m
    ctx.clause = ("AUTO_INCREMENT persistence: running-maximum idiom, store guarded by `new > header.auto_increment()`, no writer "
                  "other than INSERT and TRUNCATE.")
    dmlrules.running_max(ctx, "U1.RUNNING-MAX")
    f = m.fn(dmlrules.INSERT_REF)
    for c in [c for c in f.calls if c.name.endswith("TableFileHeader::set_auto_increment")]:
        ok = False
        for s in f.dominators().get(c.bb, ()):
            t = f.blocks[s]["t"]
            if t[0] != "switch" or t[2] != "bool" or s == c.bb:
                continue
            pl = operand_place(t[1])
            k, p, neg = f.origin(pl[0]) if pl and not pl[1] else (None, None, False)
            if k == "rvalue" and p[0] == "bin" and p[1] in ("Gt", "Lt", "Ge", "Le"):
                for side in (p[2], p[3]):
                    q = operand_place(side)
                    sc = source_call(f, q[0]) if q and not q[1] else None
                    if sc is not None and sc.name.endswith("TableFileHeader::auto_increment"):
                        ok = True
        ctx.ob("U2.NON-DECREASING", "execute_insert_internal", ok, "store dominated by a comparison with header.auto_increment()" if ok else
               "set_auto_increment is not guarded by a comparison with the stored value: the counter can move backwards", c.loc())
    writers = sorted({g.id.rsplit("::", 1)[-1] for g in m.fns.values() for c in g.calls if c.name.endswith("TableFileHeader::set_auto_increment")})
    allowed = {"execute_insert_internal", "execute_truncate"}
    ctx.ob("U3.WRITERS", "set_auto_increment", set(writers) <= allowed and "execute_insert_internal" in writers,
           "writers: %s" % writers if set(writers) <= allowed else "AUTO_INCREMENT is also written by %s" % sorted(set(writers) - allowed), "")
