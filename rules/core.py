"""Check context: obligations, floors, known findings, evidence, exit codes."""
import json, os, sys, time
from model import CheckError, VERIF

KNOWN = os.path.join(VERIF, "known_findings.json")


class Ctx:
    def __init__(self, pid, tier, model, level="other"):
        self.pid = pid
        self.tier = tier
        self.m = model
        self.level = level
        self.obs = []          # dicts
        self.notes = []
        self.stats = {}
        self.rules = set()
        self.t0 = time.time()
        self.floor_failures = []
        self.extra_evals = 0   # rule instances decided over further build configurations (thorough tier)
        self.clause = ""
        self.assumptions = []
        self.trusted = ["rustc nightly HIR/MIR for crate turdb (lib target, default features, cfg(test) off)",
                        "Instance::try_resolve callee resolution", "rule tables in /verif/rules/props"]

    # an obligation = one rule instance decided on the current tree
    def ob(self, rule, key, holds, what="", loc="", detail=None):
        self.rules.add(rule)
        self.obs.append({"rule": rule, "key": key, "holds": bool(holds), "what": what, "loc": loc,
                         "detail": detail})

    def floor(self, name, count, minimum):
        """fail closed when a rule matches fewer sites than were confirmed by reading"""
        self.stats[name] = count
        if count < minimum and os.environ.get("VERIF_SOFT"):
            print("  SOFT floor not met: %s = %d < %d" % (name, count, minimum))
        elif count < minimum:
            # deferred: a real violation found by another rule instance takes precedence over "cannot evaluate"
            self.floor_failures.append("floor not met: %s = %d < %d (rule would pass vacuously)" % (name, count, minimum))

    def stat(self, name, v):
        self.stats[name] = v

    def note(self, s):
        self.notes.append(s)


def load_known():
    if not os.path.exists(KNOWN):
        return {"open": [], "fixed": []}
    with open(KNOWN) as fh:
        return json.load(fh)


def finish(ctx, seed=0):
    known = load_known()
    open_keys = {(k["property"], k["key"]): k for k in known.get("open", [])}
    viol = [o for o in ctx.obs if not o["holds"]]
    unlisted = []
    listed = []
    for o in viol:
        kk = (ctx.pid, o["rule"] + ":" + o["key"])
        if kk in open_keys:
            listed.append((o, open_keys[kk]))
        else:
            unlisted.append(o)
    for o in ctx.obs:
        if o["holds"]:
            pass
    # report
    nh = sum(1 for o in ctx.obs if o["holds"])
    print("property=%s tier=%s obligations=%d hold=%d known_findings=%d new_violations=%d" %
          (ctx.pid, ctx.tier, len(ctx.obs), nh, len(listed), len(unlisted)))
    for k, v in sorted(ctx.stats.items()):
        print("  stat %s = %s" % (k, v))
    for o, k in listed:
        print("KNOWN-FINDING: property=%s %s:%s %s" % (ctx.pid, o["rule"], o["key"], k.get("what", o["what"])))
    # stale open entries are reported (not an error: the defect may have been fixed)
    seen_keys = {o["rule"] + ":" + o["key"] for o in viol}
    for (p, key), k in open_keys.items():
        if p == ctx.pid and key not in seen_keys:
            print("  note: known finding no longer observed: %s" % key)
    evdir = os.path.join(VERIF, "evidence")
    os.makedirs(evdir, exist_ok=True)
    replay = os.path.join(evdir, "%s.violation.json" % ctx.pid)
    if unlisted:
        with open(replay, "w") as fh:
            json.dump({"property": ctx.pid, "violations": unlisted}, fh, indent=1)
        for o in unlisted:
            print("  VIOLATED %s:%s at %s — %s" % (o["rule"], o["key"], o["loc"], o["what"]))
            if o.get("detail"):
                print("      " + str(o["detail"])[:600])
    elif os.path.exists(replay):
        os.remove(replay)
    # evidence
    distinct = len({(o["rule"], o["key"]) for o in ctx.obs})
    samples = []
    byrule = {}
    for o in ctx.obs:
        byrule.setdefault(o["rule"], []).append(o)
    for r, lst in sorted(byrule.items()):
        for o in lst[:2]:
            samples.append({"rule": o["rule"], "key": o["key"], "result": "holds" if o["holds"] else "violated",
                            "loc": o["loc"], "what": o["what"][:300]})
    ev = {
        "property_id": ctx.pid,
        "tier": ctx.tier,
        "seed": int(seed),
        "level": ctx.level,
        "coverage": {
            "explanation": ctx.clause,
            "evaluations": len(ctx.obs) + ctx.extra_evals,
            "distinct_nontrivial": distinct,
            "rule": "one evaluation = one rule instance (rule template, function/site key) decided over the MIR/HIR "
                    "facts of the current /repo tree; distinct = distinct (rule,key); non-trivial = the instance's scope "
                    "contained at least one relevant site (instances with empty scope are not emitted)",
            "samples": samples[:12],
            "obligations": len(ctx.obs),
            "discharged": nh + len(listed) if ctx.level != "proof" else nh,
            "checker_cmd": "./check %s --tier %s" % (ctx.pid, ctx.tier),
            "trusted_base": ctx.trusted,
            "functions_in_model": len(ctx.m.fns),
            "rules": sorted(ctx.rules),
            "stats": ctx.stats,
            "known_findings_reported": [o["rule"] + ":" + o["key"] for o, _ in listed],
            "facts_file": os.path.basename(ctx.m.path),
            "notes": ctx.notes,
            "exhaustive": True,
        },
        "assumptions": ctx.assumptions,
        "wall_s": round(time.time() - ctx.t0, 2),
        "violations": len(unlisted),
    }
    with open(os.path.join(evdir, "%s.json" % ctx.pid), "w") as fh:
        json.dump(ev, fh, indent=1)
    if unlisted:
        print("VIOLATION property=%s replay=%s" % (ctx.pid, replay))
        return 1
    if ctx.floor_failures:
        for ff in ctx.floor_failures:
            print("CHECK-ERROR property=%s: %s" % (ctx.pid, ff))
        return 2
    return 0
