"""REC: recursion over input-controlled nesting must carry a depth guard."""
import sys
from model import operand_place, place_fields


def sccs(m):
    sys.setrecursionlimit(100000)
    keys = list(m.fns.keys())
    adj = {k: list(m.callees_of(m.fns[k], may=False)) for k in keys}
    idx, low, st, on, out, n = {}, {}, [], set(), [], [0]
    for root in keys:
        if root in idx:
            continue
        work = [(root, iter(adj[root]))]
        idx[root] = low[root] = n[0]; n[0] += 1; st.append(root); on.add(root)
        while work:
            v, it = work[-1]
            for w in it:
                if w not in idx:
                    idx[w] = low[w] = n[0]; n[0] += 1; st.append(w); on.add(w)
                    work.append((w, iter(adj[w])))
                    break
                elif w in on:
                    low[v] = min(low[v], idx[w])
            else:
                work.pop()
                if work:
                    low[work[-1][0]] = min(low[work[-1][0]], low[v])
                if low[v] == idx[v]:
                    comp = []
                    while True:
                        w = st.pop(); on.discard(w); comp.append(w)
                        if w == v:
                            break
                    out.append(comp)
    return [c for c in out if len(c) > 1 or c[0] in adj[c[0]]], adj


def value_source(f, op, depth=8):
    """('field', name) | ('param', idx) | None for the value an operand carries (through copies/casts/derefs)"""
    pl = operand_place(op)
    while pl is not None and depth > 0:
        depth -= 1
        fl = place_fields(pl)
        if fl:
            return ("field", fl[-1])
        l = pl[0]
        if 1 <= l <= f.nargs and not f.defs().get(l):
            return ("param", l)
        ds = f.defs().get(l, [])
        if len(ds) != 1 or ds[0][0] != "stmt":
            if 1 <= l <= f.nargs:
                return ("param", l)
            return None
        rv = ds[0][3]
        if rv[0] == "use":
            pl = operand_place(rv[1])
        elif rv[0] == "cast":
            pl = operand_place(rv[2])
        elif rv[0] in ("ref", "ptr"):
            pl = rv[2]
        else:
            return None
    return None


def depth_guard(m, comp):
    """a counter (field or parameter) that is compared with a constant inside the SCC on a branch with an error/early exit, and is
    incremented (x + 1) inside the SCC — returns a description or None"""
    incs, cmps = set(), set()
    for k in comp:
        f = m.fns[k]
        for b in f.blocks:
            for s in b["s"]:
                if s[0] != "=" or s[2][0] != "bin":
                    continue
                rv = s[2]
                if rv[1].startswith("Add") and rv[3][0] == "k" and rv[3][4] == 1:
                    src = value_source(f, rv[2])
                    if src:
                        incs.add((k, src))
                if rv[1] in ("Gt", "Ge", "Lt", "Le") and ((rv[3][0] == "k" and rv[3][4] is not None and rv[3][4] >= 8) or (rv[2][0] == "k" and rv[2][4] is not None and rv[2][4] >= 8)):
                    src = value_source(f, rv[2] if rv[3][0] == "k" else rv[3])
                    if src:
                        cmps.add((k, src, rv[3][4] if rv[3][0] == "k" else rv[2][4]))
    for (k1, s1, lim) in cmps:
        for (k2, s2) in incs:
            if s1[0] == "field" and s2[0] == "field" and s1[1] == s2[1]:
                return "field %s compared with %s and incremented in the cycle" % (s1[1].rsplit("::", 1)[-1], lim)
            if s1[0] == "param" and s2[0] == "param" and k1 == k2 and s1[1] == s2[1]:
                return "parameter #%d of %s compared with %s and passed on incremented" % (s1[1], k1.rsplit("::", 1)[-1], lim)
    return None
