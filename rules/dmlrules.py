"""Rules shared by the DML-facing properties (C05-C13, C43): effect matrices with required cells, counter origins,
running-maximum idiom, index maintenance order, undo order, transaction bookkeeping reset."""
from model import CheckError, operand_place, place_fields
from paths import source_call, describe_path
import common, effects

DB = "database::"
INSERT_REF = DB + "dml::insert::<impl database::database::Database>::execute_insert_internal"
ENTRIES = {
    "insert":        INSERT_REF,
    "insert_cached": DB + "batch::<impl database::database::Database>::insert_cached",
    "insert_batch":  DB + "batch::<impl database::database::Database>::insert_batch_into_schema",
    "bulk_insert":   DB + "batch::<impl database::database::Database>::bulk_insert",
    "update":        DB + "dml::update::<impl database::database::Database>::execute_update",
    "update_from":   DB + "dml::update::<impl database::database::Database>::execute_update_with_from",
    "update_cached": DB + "dml::update::<impl database::database::Database>::execute_update_cached",
    "delete":        DB + "dml::delete::<impl database::database::Database>::execute_delete",
}


def sib_matrix(ctx, rule, required, tolerated=None):
    """required: {entry_name: [effects]}.  One obligation per (entry, effect): the entry point reaches the effect."""
    m = ctx.m
    tolerated = tolerated or {}
    ents = {n: m.fn(ENTRIES[n]) for n in required}
    mx = effects.matrix(m, list(ents.values()))
    n = 0
    for name, effs in sorted(required.items()):
        row = mx[ents[name].key]
        for e in effs:
            n += 1
            have = row.get(e, [])
            key = "%s:%s" % (name, e)
            if not have and key in tolerated:
                ctx.ob(rule, key, True, "tolerated missing cell (%s)" % tolerated[key], ents[name].loc())
                continue
            ctx.ob(rule, key, bool(have), "%s reaches %s (%d site(s), e.g. %s)" % (name, e, len(have), have[0][1].loc()) if have else
                   "row-writing entry point `%s` never reaches the `%s` effect that the row-at-a-time INSERT/UPDATE path performs" % (name, e),
                   ents[name].loc())
    return n


def chase_value_call(f, op, through=("saturating_add", "saturating_sub", "checked_add", "checked_sub", "wrapping_add", "wrapping_sub",
                                    "unwrap_or", "unwrap_or_else", "unwrap", "expect", "min", "max", "ok_or_else", "ops::Try>::branch")):
    """the non-arithmetic call a value is ultimately computed from (through ±const and saturating/checked helpers)"""
    pl = operand_place(op)
    depth = 12
    while pl is not None and depth > 0:
        depth -= 1
        if pl[1]:
            # payload of an Option/ControlFlow or checked-arith tuple: step to the base local
            pl = [pl[0], []]
        l = pl[0]
        ds = f.defs().get(l, [])
        if len(ds) != 1:
            return ("multi", l)
        d = ds[0]
        if d[0] == "call":
            c = d[2]
            if c is None:
                return None
            tail = c.name.rsplit("::", 1)[-1]
            if any(c.name.endswith(t) or tail == t for t in through) and c.args:
                pl = operand_place(c.args[0])
                continue
            return ("call", c)
        rv = d[3]
        if rv[0] == "use":
            if rv[1][0] == "k":
                return ("const", rv[1][4])
            pl = operand_place(rv[1])
        elif rv[0] == "cast":
            pl = operand_place(rv[2])
        elif rv[0] == "bin":
            a, b = rv[2], rv[3]
            pl = operand_place(a) if b[0] == "k" else operand_place(b) if a[0] == "k" else None
            if pl is None:
                return ("expr", rv[1])
        else:
            return ("expr", rv[0])
    return None


def row_count_origin(ctx, rule, min_sites=5):
    """every TableFileHeader::set_row_count(v): v is a constant (TRUNCATE) or computed from TableFileHeader::row_count() read
    in the same function — never from a cached copy that other statements cannot see."""
    m = ctx.m
    n = 0
    for f in sorted(m.fns.values(), key=lambda f: f.id):
        for c in f.calls:
            if not c.name.endswith("TableFileHeader::set_row_count") or len(c.args) < 2:
                continue
            n += 1
            a = c.args[1]
            if a[0] == "k":
                ctx.ob(rule, f.id.rsplit("::", 1)[-1], True, "constant row count", c.loc())
                continue
            src = chase_value_call(f, a)
            ok = src is not None and ((src[0] == "call" and src[1].name.endswith("TableFileHeader::row_count")) or src[0] == "const")
            ctx.ob(rule, f.id.rsplit("::", 1)[-1], ok, "new row count derives from the header's current row_count()" if ok else
                   "set_row_count receives a value that does not come from the header's own row_count() (%s): counts written by other "
                   "statements are overwritten and COUNT(*) drifts" % ((src[1].name if src and src[0] == "call" else src),), c.loc())
    ctx.floor(rule + ".sites", n, min_sites)


def running_max(ctx, rule):
    """the value stored by set_auto_increment is a running maximum: every assignment `M = X` to its source variable (other than
    its initialisation) sits on the true arm of a comparison of X against M itself."""
    m = ctx.m
    n = 0
    for f in sorted(m.fns.values(), key=lambda f: f.id):
        for c in f.calls:
            if not c.name.endswith("TableFileHeader::set_auto_increment") or len(c.args) < 2:
                continue
            pl = operand_place(c.args[1])
            if pl is None:
                continue
            # root mutable local
            l = pl[0]
            hops = 0
            while hops < 6:
                ds = f.defs().get(l, [])
                if len(ds) == 1 and ds[0][0] == "stmt" and ds[0][3][0] == "use" and operand_place(ds[0][3][1]) and not operand_place(ds[0][3][1])[1]:
                    l = operand_place(ds[0][3][1])[0]
                    hops += 1
                else:
                    break
            ds = f.defs().get(l, [])
            if len(ds) < 2:
                continue   # not a running variable (e.g. TRUNCATE resets to a constant)
            n += 1
            bad = None
            first = min(d[1] for d in ds)
            for d in ds:
                if d[0] != "stmt" or d[1] == first:
                    continue
                bb = d[1]
                # nearest dominating bool switch whose taken arm contains bb
                guard = None
                for s in sorted(f.dominators().get(bb, ()), key=lambda x: -len(f.dominators()[x])):
                    t = f.blocks[s]["t"]
                    if s != bb and t[0] == "switch" and t[2] == "bool":
                        guard = s
                        break
                okd = False
                if guard is not None:
                    plc = operand_place(f.blocks[guard]["t"][1])
                    k, p, neg = f.origin(plc[0]) if plc and not plc[1] else (None, None, False)
                    if k == "rvalue" and p[0] == "bin" and p[1] in ("Gt", "Ge", "Lt", "Le"):
                        def root(op):
                            q = operand_place(op)
                            h = 0
                            while q is not None and not q[1] and h < 6:
                                dd = f.defs().get(q[0], [])
                                if q[0] == l:
                                    return l
                                if len(dd) == 1 and dd[0][0] == "stmt" and dd[0][3][0] in ("use", "cast"):
                                    q = operand_place(dd[0][3][1] if dd[0][3][0] == "use" else dd[0][3][2])
                                    h += 1
                                else:
                                    break
                            return q[0] if q else None
                        okd = root(p[2]) == l or root(p[3]) == l
                if not okd:
                    bad = d
                    break
            ctx.ob(rule, f.id.rsplit("::", 1)[-1], bad is None,
                   "the persisted AUTO_INCREMENT value is a running maximum (every update is guarded by a comparison with itself)" if bad is None else
                   "the value later written by set_auto_increment is assigned at line %s without being compared against its own current "
                   "value: a smaller id can lower the persisted counter and generated ids are reused" % f.blocks[bad[1]].get("l"), c.loc())
    ctx.floor(rule + ".running_variables", n, 1)


def index_delete_before_insert(ctx, rule, fn_ids):
    """in UPDATE's index maintenance loops the old entry is removed before the new one is inserted (both results are discarded
    today, so the reverse order silently drops the only entry when the key is unchanged)."""
    m = ctx.m
    n = 0
    for fid in fn_ids:
        f = m.fn(fid)
        ins = [c for c in f.calls if common.is_raw_btree_mutation(c) and common.btree_call_parts(c)[1] in ("insert", "insert_if_not_exists")]
        dels = [c for c in f.calls if common.is_raw_btree_mutation(c) and common.btree_call_parts(c)[1] == "delete"]
        def recv(c):
            pl = operand_place(c.args[0]) if c.args else None
            if pl is None:
                return None
            l = pl[0]
            for _ in range(6):
                ds = f.defs().get(l, [])
                if len(ds) == 1 and ds[0][0] == "stmt" and ds[0][3][0] in ("ref", "use"):
                    src = ds[0][3][2] if ds[0][3][0] == "ref" else operand_place(ds[0][3][1])
                    if src is None:
                        break
                    l = src[0]
                else:
                    break
            return l
        loops = f.loops()
        for i in ins:
            li = [(h, b) for h, b in loops if i.bb in b]
            if not li:
                continue
            h, body = min(li, key=lambda x: len(x[1]))
            for d in dels:
                if d.bb not in body or recv(d) != recv(i):
                    continue
                n += 1
                # is the delete reachable from the insert inside the same iteration?
                outside = [b for b in range(len(f.blocks)) if b not in body or b == h]
                r = f.reachable([i.target] if i.target is not None else [], blocked=outside)
                bad = d.bb in r
                ordinal = sorted({hh for hh, bb_ in loops if any(x.bb in bb_ for x in ins) and any(x.bb in bb_ for x in dels)}).index(h) + 1 if h in {hh for hh, _ in loops} else 0
                ctx.ob(rule, "%s#loop%d" % (f.id.rsplit("::", 1)[-1], ordinal), not bad,
                       "old index entry is deleted before the new one is inserted" if not bad else
                       "the new index entry is inserted before the old one is deleted: when the key is unchanged the insert fails "
                       "silently and the delete then removes the only entry", i.loc())
    ctx.floor(rule + ".pairs", n, 2)


def undo_newest_first(ctx, rule):
    m = ctx.m
    f = common.stmt_handler(m, "undo_write_entries")
    revs = [c for c in f.calls if c.name.endswith("Iterator::rev") or c.name.endswith("Iterator>::rev") or "iter::Rev<" in c.full]
    ctx.ob(rule, f.id.rsplit("::", 1)[-1], bool(revs), "write entries are undone newest-first (reversed iteration)" if revs else
           "write entries are undone oldest-first: a delete+re-insert of one key inside the transaction restores the row but loses its "
           "index entry", f.loc())


def txn_reset_fields(ctx, rule):
    """ActiveTransaction: every per-entry bookkeeping field that take_write_entries resets is also reset by
    rollback_to_savepoint (the two are the only consumers of the undo log)."""
    m = ctx.m
    AT = "database::transaction::ActiveTransaction::"
    def touched(fid):
        f = m.fn(fid)
        out = set()
        for b in f.blocks:
            for s in b["s"]:
                if s[0] == "=" and s[1][1]:
                    out |= {x for x in place_fields(s[1]) if x.startswith("database::transaction::ActiveTransaction::")}
                if s[0] == "=" and s[2][0] in ("ref",) and s[2][1]:   # &mut self.field handed to a mutator
                    out |= {x for x in place_fields(s[2][2]) if x.startswith("database::transaction::ActiveTransaction::")}
        return out
    take = touched(AT + "take_write_entries")
    rb = touched(AT + "rollback_to_savepoint")
    missing = sorted(x.rsplit("::", 1)[-1] for x in take - rb)
    ctx.ob(rule, "rollback_to_savepoint", not missing and bool(take),
           "rollback_to_savepoint updates every bookkeeping field take_write_entries resets (%s)" % sorted(x.rsplit("::", 1)[-1] for x in take) if not missing else
           "take_write_entries resets %s but rollback_to_savepoint leaves it untouched: stale bookkeeping survives ROLLBACK TO and later "
           "writes of the same rows are not undone" % missing, m.fn(AT + "rollback_to_savepoint").loc())
    # the two logs are drained with the same index
    f = m.fn(AT + "rollback_to_savepoint")
    drains = [c for c in f.calls if c.name.endswith("::drain") or c.name.endswith("::truncate") or c.name.endswith("::split_off")]
    ctx.ob(rule + ".PAIRED-DRAIN", "rollback_to_savepoint", len(drains) >= 2, "%d drain/truncate call(s) over the parallel logs" % len(drains), f.loc())


# ---------------- index key shapes (writer vs undo agreement) ----------------
def _buf_root(f, op, depth=12):
    """(base local, field-name tuple) of the buffer an operand denotes, through reborrows, copies and Deref/as_slice calls"""
    from paths import TRANSPARENT
    pl = operand_place(op)
    if pl is None:
        return None
    l, proj = pl[0], list(pl[1])
    fields = []
    while depth > 0:
        depth -= 1
        fields = [p[2] for p in proj if isinstance(p, list) and p[0] == "f"] + fields
        if 1 <= l <= f.nargs and not f.defs().get(l):
            return (l, tuple(fields))
        ds = f.defs().get(l, [])
        if len(ds) != 1:
            return (l, tuple(fields))
        d = ds[0]
        if d[0] == "call":
            c = d[2]
            if any(c.name.endswith(t) for t in TRANSPARENT) or c.name.endswith("::as_slice") or c.name.endswith("::as_mut_slice"):
                q = operand_place(c.args[0]) if c.args else None
                if q is None:
                    return (l, tuple(fields))
                l, proj = q[0], list(q[1])
                continue
            return (l, tuple(fields))
        rv = d[3]
        if rv[0] == "use":
            q = operand_place(rv[1])
        elif rv[0] in ("ref", "ptr"):
            q = rv[2]
        else:
            return (l, tuple(fields))
        if q is None:
            return (l, tuple(fields))
        l, proj = q[0], list(q[1])
    return (l, tuple(fields))


def index_key_shapes(m, f, methods=("insert", "delete")):
    """For each B-tree insert/delete in f whose key is a scratch buffer: the kinds of pieces appended to that buffer since the
    `clear()` that dominates the call — 'E' (encode_value_as_key of a column value) and 'R' (raw bytes appended: the row id / row
    key suffix that makes a non-unique index key distinct).  Returns list of (call, method, shape-string)."""
    out = []
    evs = []
    for c in f.calls:
        t = c.name.rsplit("::", 1)[-1]
        if t == "clear" and c.args:
            evs.append(("clear", c, _buf_root(f, c.args[0])))
        elif t == "encode_value_as_key" and len(c.args) >= 2:
            evs.append(("E", c, _buf_root(f, c.args[1])))
        elif t in ("extend_from_slice", "extend", "push", "insert_from_slice", "extend_from_within") and c.args and ("Vec" in c.name or "SmallVec" in c.name or "smallvec" in c.name):
            evs.append(("R", c, _buf_root(f, c.args[0])))
    clears = [e for e in evs if e[0] == "clear"]

    def nearest_clear(bb, root):
        best = None
        for _, c, r in clears:
            if r == root and f.dominates(c.bb, bb) and (best is None or f.dominates(best.bb, c.bb)):
                best = c
        return best
    for c in f.calls:
        t = c.name.rsplit("::", 1)[-1]
        if not c.name.startswith("btree::tree::BTree::") or t not in methods or len(c.args) < 2:
            continue
        root = _buf_root(f, c.args[1])
        if root is None:
            continue
        nc = nearest_clear(c.bb, root)
        if nc is None:
            continue
        kinds = []
        for k, e, r in evs:
            if k == "clear" or r != root or e.bb == c.bb and False:
                continue
            if nearest_clear(e.bb, root) is not nc:
                continue
            if c.bb not in f.reachable([e.bb]) or f.dominates(c.bb, e.bb) and e.bb != c.bb:
                continue
            kinds.append(k)
        shape = "".join(sorted(set(kinds)))
        out.append((c, t, shape))
    return out


def index_key_suffix_rule(ctx, rule, tolerated=None):
    """INSERT stores non-unique index entries under encode(cols) || row_key and unique ones under encode(cols).  Every other place
    that builds a multi-column index key (UPDATE, DELETE, rollback) has to make the same distinction, and the only source of it is
    IndexDef::is_unique.  One obligation per (function, suffix kind) for multi-column key sites:
      holds  iff the function (with its closures) consults IndexDef::is_unique.
    suffix kind: none | unconditional | conditional (whether raw bytes are appended after the encoded columns)."""
    m = ctx.m
    tolerated = tolerated or {}
    fns = [ENTRIES["insert"], ENTRIES["update"], ENTRIES["delete"], "database::transaction::<impl database::database::Database>::undo_write_entry"]
    n = 0
    for fid in fns:
        f = m.fn(fid)
        group = [f] + list(common.all_closures(m, f))
        consults = any(c.name.endswith("IndexDef::is_unique") for g in group for c in g.calls)
        loops = f.loops()
        items = list(loops.items()) if isinstance(loops, dict) else list(loops)
        kinds = {}
        for c, t, shape in index_key_shapes_detail(m, f):
            n += 1
            kinds.setdefault(shape, c)
        short = fid.rsplit("::", 1)[-1]
        for kind, c in sorted(kinds.items()):
            key = "%s:suffix-%s" % (short, kind)
            if not consults and key in tolerated:
                ctx.note("%s %s tolerated: %s" % (rule, key, tolerated[key]))
                continue
            ctx.ob(rule, key, consults, "multi-column index keys (%s row-key suffix) built in a function that consults IndexDef::is_unique" % kind if consults else
                   "a multi-column index key is built with %s row-key suffix in a function that never consults IndexDef::is_unique: it cannot match "
                   "both the unique (encode(cols)) and the non-unique (encode(cols) || row_key) entries INSERT stores" % kind, c.loc())
    ctx.floor(rule + ".multi_column_key_sites", n, 6)


def index_key_shapes_detail(m, f):
    """multi-column key sites only: (call, method, suffix kind)"""
    out = []
    loops = f.loops()
    items = list(loops.items()) if isinstance(loops, dict) else list(loops)
    evs = []
    for c in f.calls:
        t = c.name.rsplit("::", 1)[-1]
        if t == "clear" and c.args:
            evs.append(("clear", c, _buf_root(f, c.args[0])))
        elif t == "encode_value_as_key" and len(c.args) >= 2:
            evs.append(("E", c, _buf_root(f, c.args[1])))
        elif t in ("extend_from_slice", "extend") and c.args and ("Vec" in c.name or "SmallVec" in c.name or "smallvec" in c.name):
            evs.append(("R", c, _buf_root(f, c.args[0])))
    clears = [e for e in evs if e[0] == "clear"]

    def nearest_clear(bb, root):
        best = None
        for _, c, r in clears:
            if r == root and f.dominates(c.bb, bb) and (best is None or f.dominates(best.bb, c.bb)):
                best = c
        return best
    for c in f.calls:
        t = c.name.rsplit("::", 1)[-1]
        if not c.name.startswith("btree::tree::BTree::") or t not in ("insert", "delete") or len(c.args) < 2:
            continue
        root = _buf_root(f, c.args[1])
        nc = nearest_clear(c.bb, root) if root is not None else None
        if nc is None:
            continue
        mine = [(k, e) for k, e, r in evs if k != "clear" and r == root and nearest_clear(e.bb, root) is nc
                and c.bb in f.reachable([e.bb]) and not (f.dominates(c.bb, e.bb) and e.bb != c.bb)]
        es = [e for k, e in mine if k == "E"]
        rs = [e for k, e in mine if k == "R"]
        multi = any(any(e.bb in body and nc.bb not in body for _, body in items) for e in es)
        if not multi:
            continue
        kind = "none" if not rs else ("unconditional" if all(f.dominates(e.bb, c.bb) for e in rs) else "conditional")
        out.append((c, t, kind))
    return out


KEY_SUFFIX_TOLERATED = {}


def _deps(f, local, limit=600, stop=()):
    """backward dependence closure of a local over all of its definitions: data (operands of rvalues, arguments of calls) and,
    for multi-definition locals such as a lowered `a && b && c`, control (operands of the switches lying between the nearest
    common dominator of the definitions and those definitions)"""
    seen, st = set(), [local]

    def ops_of(rv):
        out = []

        def walk(x):
            if isinstance(x, list):
                if len(x) == 2 and x and x[0] in ("c", "m") and isinstance(x[1], list) and x[1] and isinstance(x[1][0], int):
                    out.append(x[1][0])
                    return
                for y in x:
                    walk(y)
        walk(rv)
        return out
    while st and len(seen) < limit:
        l = st.pop()
        if l in seen:
            continue
        seen.add(l)
        if l in stop:
            continue
        ds_ = f.defs().get(l, [])
        if len(ds_) >= 2:
            dbs = [d[1] for d in ds_]
            doms = [set(f.dominators().get(b, ())) | {b} for b in dbs]
            common_ = set.intersection(*doms) if doms else set()
            ncd = None
            for b in common_:
                if ncd is None or f.dominates(ncd, b):
                    ncd = b
            if ncd is not None:
                fwd = f.reachable([ncd])
                for b in fwd:
                    t_ = f.blocks[b]["t"]
                    if t_[0] != "switch":
                        continue
                    rb = f.reachable([b])
                    if any(x in rb for x in dbs) and not all(f.dominates(x, b) for x in dbs):
                        q_ = operand_place(t_[1])
                        if q_ is not None:
                            st.append(q_[0])
        for d in ds_:
            if d[0] == "call":
                for a in d[2].args:
                    pl = operand_place(a)
                    if pl is not None:
                        st.append(pl[0])
            else:
                rv = d[3]
                if rv[0] in ("ref", "ptr"):
                    st.append(rv[2][0])
                elif rv[0] == "disc":
                    st.append(rv[1][0])
                else:
                    st += ops_of(rv)
    return seen


def fastpath_guard_depends(ctx, rule, entries=("update", "delete")):
    """A region of a DML entry that rewrites a row and returns Ok without reaching any index-key site is a fast path; it is only
    sound when its guard excludes statements that touch an indexed column, i.e. the guard's value must depend on the collection of
    secondary indexes the slow path iterates.  One obligation per outermost such region."""
    m = ctx.m
    n = 0
    for e in entries:
        f = m.fn(ENTRIES[e])
        sites = index_key_shapes_detail(m, f)
        site_bbs = {c.bb for c, t, k in index_key_shapes(m, f)}
        if not site_bbs:
            continue
        S = set()
        loops = f.loops()
        items = list(loops.items()) if isinstance(loops, dict) else list(loops)
        for c, t, k in sites:
            for hdr, body in items:
                if c.bb not in body:
                    continue
                for x in f.calls:
                    if x.name.endswith("IntoIterator>::into_iter") and x.target is not None and (x.target == hdr or f.dominates(x.bb, hdr)) and x.args:
                        r = _buf_root(f, x.args[0])
                        if r is not None and "(std::string::String, std::vec::Vec<usize>" in f.locals[r[0]]:
                            S.add(r[0])
        flush = [c.bb for c in f.calls if c.name.endswith("flush_wal_if_autocommit") or c.name.endswith("add_write_entry_with_undo")]
        oks = [bb for bb, b in enumerate(f.blocks) for s in b["s"]
               if s[0] == "=" and s[1][0] == 0 and not s[1][1] and s[2][0] == "agg" and s[2][3] == "Ok"]
        regions = []
        for bb, b in enumerate(f.blocks):
            t = b["t"]
            if t[0] != "switch" or t[2] != "bool":
                continue
            for tgt in [x[1] for x in t[3]] + [t[4]]:
                region = {x for x in f.reachable([tgt]) if f.dominates(tgt, x)}
                if any(x in region for x in flush) and any(x in region for x in oks) and not (site_bbs & region):
                    regions.append((bb, tgt, region))
        outer = [r for r in regions if not any(r[0] in o[2] for o in regions if o is not r)]
        for k, (bb, tgt, region) in enumerate(sorted(outer, key=lambda r: r[0])):
            n += 1
            pl = operand_place(f.blocks[bb]["t"][1])
            deps = _deps(f, pl[0]) if pl else set()
            ok = bool(S) and bool(deps & S)
            ctx.ob(rule, "%s#%d" % (e, k), ok, "the fast path's guard depends on the secondary-index collection" if ok else
                   "a path rewrites the row and returns Ok without any index maintenance, and its guard (L%s) does not depend on which indexed "
                   "columns the statement assigns: the row stays under its old index key" % f.blocks[bb].get("l"), "%s:%s" % (f.file, f.blocks[bb].get("l")))
    return n


def _data_fields(f, local, limit=200):
    """field names read anywhere in the backward *data* dependence closure of a local (no control dependence)"""
    seen, st, fields = set(), [local], set()

    def walk(x):
        if isinstance(x, list):
            if len(x) == 2 and x and x[0] in ("c", "m") and isinstance(x[1], list) and x[1] and isinstance(x[1][0], int):
                st.append(x[1][0])
                fields.update(place_fields(x[1]))
                return
            for y in x:
                walk(y)
    while st and len(seen) < limit:
        l = st.pop()
        if l in seen:
            continue
        seen.add(l)
        for d in f.defs().get(l, []):
            if d[0] == "call":
                for a in d[2].args:
                    walk(a)
            else:
                rv = d[3]
                if rv[0] in ("ref", "ptr"):
                    st.append(rv[2][0])
                    fields.update(place_fields(rv[2]))
                else:
                    walk(rv)
    return fields


def index_value_is_row_key(ctx, rule):
    """The value stored with an index entry is the row key (INSERT stores row_id.to_be_bytes()).  At every index insert site the
    value argument must not be computed from a column value (a payload of OwnedValue): a primary-key value is not a row key."""
    m = ctx.m
    fns = [ENTRIES["insert"], ENTRIES["update"], "database::transaction::<impl database::database::Database>::undo_write_entry"]
    n = 0
    for fid in fns:
        f = m.fn(fid)
        k = 0
        for c, t, shape in index_key_shapes(m, f, methods=("insert",)):
            if len(c.args) < 3:
                continue
            n += 1
            pl = operand_place(c.args[2])
            flds = _data_fields(f, pl[0]) if pl else set()
            bad = sorted(x for x in flds if "OwnedValue::" in x)
            ctx.ob(rule, "%s#%d" % (fid.rsplit("::", 1)[-1], k), not bad, "index entry value does not come from a column value" if not bad else
                   "the value stored with the index entry is computed from a column value (%s), not from the row key: the entry points at the wrong "
                   "row whenever the primary key differs from the row id" % bad[0], c.loc())
            k += 1
    ctx.floor(rule + ".index_insert_sites", n, 6)


def undo_removes_new_keys(ctx, rule):
    """Undoing an UPDATE restores the old index entries; the entries of the values being rolled back have to go too: in
    undo_write_entry every index insert is paired with an index delete on the same tree inside the same per-index loop."""
    m = ctx.m
    f = m.fn("database::transaction::<impl database::database::Database>::undo_write_entry")
    shapes = index_key_shapes(m, f)
    ins = [c for c, t, s in shapes if t == "insert"]
    dels = [c for c, t, s in shapes if t == "delete"]
    loops = f.loops()
    items = list(loops.items()) if isinstance(loops, dict) else list(loops)

    def recv(c):
        r = _buf_root(f, c.args[0]) if c.args else None
        return r
    k = 0
    for i in sorted(ins, key=lambda c: c.line):
        li = [(h, b) for h, b in items if i.bb in b]
        ok = False
        if li:
            h, body = min(li, key=lambda x: len(x[1]))
            ok = any(d.bb in body and recv(d) == recv(i) for d in dels)
        ctx.ob(rule, "undo_write_entry#%d" % k, ok, "restoring the old entry is paired with removing the rolled-back one" if ok else
               "the old index entry is re-inserted but the entry of the value being rolled back is never removed: after ROLLBACK the row is "
               "still found under the rolled-back key and a rolled-back UNIQUE value stays reserved", i.loc())
        k += 1
    ctx.floor(rule + ".undo_index_inserts", k, 2)


def undo_restores_entry(ctx, rule):
    """In undo_write_entry's per-index loops, once the index file exists and the restored row has non-null values for the index
    columns, every continuing path re-inserts the old index entry.  A skip (for example "key unchanged") loses the entry when the
    statement being undone was a DELETE: the tombstone still holds the old values, but the DELETE already removed the entry."""
    from paths import call_named, assumed_cuts, success_escapes, describe_path
    m = ctx.m
    f = m.fn("database::transaction::<impl database::database::Database>::undo_write_entry")
    ins = [c for c, t, s in index_key_shapes(m, f, methods=("insert",))]
    A = [call_named("Option::<T>::is_none", False, desc="a value is being restored or undone"),
         call_named("Option::<T>::filter", 1, desc="the index column values are non-null"),
         call_named(["Iterator>::all", "Iterator::all"], True, desc="all index columns are non-null"),
         call_named("::is_empty", False)]
    cuts, applied = assumed_cuts(f, A)
    n = 0
    for c in f.calls:
        if not c.name.endswith("FileManager::index_exists") or c.target is None:
            continue
        if not any(f.dominates(c.bb, i.bb) for i in ins):
            continue
        # true edge of the switch on the call's result
        sw = c.target
        t = f.blocks[sw]["t"]
        if t[0] != "switch":
            continue
        pl = operand_place(t[1])
        k, p, neg = f.origin(pl[0]) if pl and not pl[1] else (None, None, False)
        false_t = [x[1] for x in t[3] if x[0] == 0] or [t[4]]
        true_t = [t[4]] if [x for x in t[3] if x[0] == 0] else [x[1] for x in t[3] if x[0] == 1]
        start = (false_t if neg else true_t)[0]
        n += 1
        esc = success_escapes(f, [start], [i.bb for i in ins], cuts)
        ctx.ob(rule, "undo_write_entry#%d" % (n - 1), not esc, "the old index entry is always re-inserted" if not esc else
               "the restore of an index entry can be skipped (%s): undoing a DELETE leaves the row visible to scans but missing from the index"
               % describe_path(f, esc[0]), c.loc())
    ctx.floor(rule + ".index_loops", n, 2)


ROOT_WRITEBACK_FNS = {
    # function id suffix -> minimum number of (BTree::root_page -> set_root_page / root map) write-backs, confirmed by reading
    "database::toast::<impl database::database::Database>::toast_value": 1,
    "database::dml::insert::<impl database::database::Database>::execute_insert_internal": 2,   # table + TOAST (index roots go through a map)
    "database::batch::<impl database::database::Database>::insert_cached": 2,
    "database::batch::<impl database::database::Database>::insert_batch_into_schema": 1,
    "database::ddl::<impl database::database::Database>::execute_create_index": 1,
}


def root_writeback(ctx, rule, fn_ids=None):
    """Appending inserts can move a tree's root page (BTree::root_page() changes); the functions that own such trees read the new
    root back and persist it in the file header (set_root_page).  Instances confirmed by reading are frozen in ROOT_WRITEBACK_FNS:
    each must still (a) call BTree::root_page on a tree it inserted into and (b) reach set_root_page with a value that depends on
    that call.  A dropped write-back leaves the header pointing at the old root: everything in the new right sibling is lost."""
    m = ctx.m
    for fid, minimum in sorted(ROOT_WRITEBACK_FNS.items()):
        if fn_ids is not None and fid not in fn_ids:
            continue
        f = m.fn(fid)
        group = [f] + list(common.all_closures(m, f))
        n = 0
        for g in group:
            rps = {c.dest[0] for c in g.calls if c.name.endswith("BTree::<'a, S>::root_page") and c.dest is not None}
            for c in g.calls:
                if c.name.endswith("FileHeader::set_root_page") and len(c.args) >= 2:
                    pl = operand_place(c.args[1])
                    if pl is not None and (_deps(g, pl[0]) & rps):
                        n += 1
        short = fid.rsplit("::", 1)[-1]
        ctx.ob(rule, short, n >= minimum, "%d root write-back(s) (BTree::root_page() -> set_root_page)" % n if n >= minimum else
               "%s inserts into a tree but persists its new root %d time(s) (expected >= %d): after a root split the file header keeps the "
               "old root and the entries in the new sibling become unreachable" % (short, n, minimum), f.loc())


def modified_set_complete(ctx, rule):
    """UPDATE decides which unique columns / indexes / FK references to re-check from a HashSet<usize> of assigned column
    positions.  That set has to be collected from the complete SET list: a collection that is itself filled conditionally inside a
    loop over another collection (the precomputed vs. per-row "deferred" partition) is a subset, and columns assigned through the
    other part are treated as unmodified — no uniqueness check, no index maintenance, no ON UPDATE action."""
    m = ctx.m
    f = m.fn(ENTRIES["update"])
    loops = f.loops()
    items = list(loops.items()) if isinstance(loops, dict) else list(loops)
    # locals that are filled by push inside a loop
    pushed = {}
    for c in f.calls:
        if c.name.rsplit("::", 1)[-1] == "push" and c.args and any(c.bb in body for _, body in items):
            r = _buf_root(f, c.args[0])
            if r is not None and not r[1]:
                pushed.setdefault(r[0], []).append(c)
    n = 0
    for c in f.calls:
        if not (c.name.endswith("Iterator>::collect") or c.name.rsplit("::", 1)[-1].startswith("collect")):
            continue
        if "HashSet<usize" not in c.full and not (c.dest is not None and "HashSet<usize" in f.locals[c.dest[0]]):
            continue
        # walk the iterator chain back to the collection it iterates
        src = c
        root = None
        hops = 0
        while src is not None and hops < 8:
            hops += 1
            if not src.args:
                break
            r = _buf_root(f, src.args[0])
            pl = operand_place(src.args[0])
            from paths import source_call
            nxt = source_call(f, pl[0]) if pl is not None and not pl[1] else None
            if nxt is None or not any(nxt.name.rsplit("::", 1)[-1].startswith(x) for x in ("map", "iter", "into_iter", "filter", "copied", "cloned", "enumerate", "deref")):
                root = r
                break
            src = nxt
            root = _buf_root(f, nxt.args[0]) if nxt.args else None
        if root is None:
            continue
        n += 1
        subset = root[0] in pushed
        ctx.ob(rule, "execute_update#%d" % (n - 1), not subset, "the modified-column set is collected from a complete collection" if not subset else
               "the set of modified columns is collected from a collection that is only a partition of the SET list (it is filled by push "
               "inside a loop, L%d): columns assigned through the other partition are treated as unmodified — uniqueness, index "
               "maintenance and ON UPDATE actions are skipped for them" % pushed[root[0]][0].line, c.loc())
    ctx.floor(rule + ".modified_sets", n, 1)


def key_cleared_per_row(ctx, rule, floor=8):
    """KEY-CLEARED-PER-ROW: the DML entry points build index keys in one reused buffer.  Where a B-tree insert/delete inside a loop
    uses a key that is (partly) encoded inside that loop, the buffer is cleared inside the same loop, before the use: with the clear
    hoisted out of the loop the second row's key is appended to the first row's, the index entry of every row but the first is not
    found (DELETE/UPDATE leave stale entries) or is stored under a concatenated key (INSERT)."""
    m = ctx.m
    n = 0
    for name, fid in sorted(ENTRIES.items()):
        f0 = m.fn(fid)
        for f in [f0] + list(common.all_closures(m, f0)):
            loops = [(h, set(b)) for h, b in f.loops()]
            if not loops:
                continue
            clears = [(c, _buf_root(f, c.args[0])) for c in f.calls if c.name.rsplit("::", 1)[-1] == "clear" and c.args]
            encs = [(c, _buf_root(f, c.args[1])) for c in f.calls if c.name.rsplit("::", 1)[-1] == "encode_value_as_key" and len(c.args) >= 2]
            k = 0
            for c in f.calls:
                t = c.name.rsplit("::", 1)[-1]
                if not c.name.startswith("btree::tree::BTree::") or t not in ("insert", "delete") or len(c.args) < 2:
                    continue
                root = _buf_root(f, c.args[1])
                inside = [(h, b) for h, b in loops if c.bb in b]
                if root is None or not inside:
                    continue
                h, body = min(inside, key=lambda x: len(x[1]))
                if not any(r == root and e.bb in body for e, r in encs):
                    continue
                n += 1
                k += 1
                ok = any(r == root and cl.bb in body and f.dominates(cl.bb, c.bb) for cl, r in clears)
                ctx.ob(rule, "%s:%s#%d" % (name, t, k), ok, "key buffer cleared inside the row loop before the %s" % t if ok else
                       "the key buffer of this index %s is filled inside the loop but never cleared inside it: from the second row on the key is "
                       "the concatenation of all earlier keys, so entries are not found / stored under the wrong key" % t, c.loc())
    ctx.floor(rule + ".sites", n, floor)
