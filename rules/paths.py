"""Path rules over one function's MIR CFG: MUST-PASS / ORDER with configuration assumptions,
and the interprocedural must-reach fixpoint."""
from model import place_fields, operand_place


# ---------------- assumptions (path pruning under the property's precondition) ----------------
class Assume:
    """`matcher(fn, kind, payload)` recognises the origin of a branch condition; `value` is the
    boolean the property's precondition fixes it to (e.g. should_sync() == True under FULL)."""

    def __init__(self, desc, matcher, value):
        self.desc = desc
        self.matcher = matcher
        self.value = value


def arg_origin(fn, call, i=0):
    if i >= len(call.args):
        return ("unknown", None, False)
    pl = operand_place(call.args[i])
    if pl is None:
        return ("const", call.args[i], False)
    if pl[1]:
        return ("field", pl, False)
    return fn.origin(pl[0])


TRANSPARENT = ("ops::Deref>::deref", "ops::DerefMut>::deref_mut", "::lock", "::read", "::write", "::as_ref", "::as_mut",
               "::borrow", "::borrow_mut", "::as_deref", "::as_deref_mut", "clone::Clone>::clone", "::unwrap", "::expect",
               "::get_mut", "::get_ref", "::upgradable_read", "::try_lock", "::try_read", "::try_write", "::deref", "::deref_mut")


def origin_fields(fn, kind, payload, depth=6):
    """field names an origin mentions, chasing through transparent accessor calls (deref, lock, as_ref, ...)"""
    out = []
    if kind == "field":
        out += place_fields(payload)
        if depth > 0 and payload and not 1 <= payload[0] <= fn.nargs:
            k2, p2, _ = fn.origin(payload[0])
            if k2 in ("field", "call"):
                out += origin_fields(fn, k2, p2, depth - 1)
    elif kind == "call" and payload is not None and depth > 0:
        n = payload.name
        if any(n.endswith(t) for t in TRANSPARENT):
            k2, p2, _ = arg_origin(fn, payload, 0)
            out += origin_fields(fn, k2, p2, depth - 1)
    return out


def call_named(suffixes, value, desc=None, recv_field=None):
    if isinstance(suffixes, str):
        suffixes = [suffixes]

    def m(fn, kind, payload):
        if kind != "call" or payload is None:
            return False
        n = payload.name
        if not any(n == s or n.endswith(s) for s in suffixes):
            return False
        if recv_field is not None:
            k2, p2, _ = arg_origin(fn, payload, 0)
            fl = origin_fields(fn, k2, p2)
            if not any(f.endswith(recv_field) for f in fl):
                return False
        return True

    return Assume(desc or ("%s == %s" % ("|".join(suffixes), value)), m, value)


def atomic_load_of(field_suffix, value):
    return call_named(["AtomicBool::load", "atomic::Atomic::<bool>::load"], value,
                      desc="%s.load() == %s" % (field_suffix, value), recv_field=field_suffix)


PASS_THROUGH = ("ops::Try>::branch", "::wrap_err_with", "::wrap_err", "::map_err", "::unwrap", "::expect", "::unwrap_or",
                "::unwrap_or_default", "::ok_or_else", "::ok_or", "convert::From<T>>::from", "convert::Into<U>>::into")


def source_call(fn, local, depth=10):
    """the call that produced the value in `local`, looking through `?`, wrap_err, unwrap, casts and payload reads"""
    while depth > 0:
        depth -= 1
        k, p, _ = fn.origin(local)
        if k == "field":
            local = p[0]
            continue
        if k == "call" and p is not None:
            if any(p.name.endswith(t) for t in PASS_THROUGH) and p.args:
                pl = operand_place(p.args[0])
                if pl is None:
                    return p
                local = pl[0]
                continue
            return p
        return None
    return None


def cmp_of_call(op, callee_suffixes, const_val, value, desc=None):
    """branch condition `call_result <op> const` (e.g. frames > 0) assumed `value`"""
    if isinstance(callee_suffixes, str):
        callee_suffixes = [callee_suffixes]

    def m(fn, kind, payload):
        if kind != "rvalue" or not payload or payload[0] != "bin" or payload[1] != op:
            return False
        a, b = payload[2], payload[3]
        if b[0] != "k" or b[4] != const_val:
            return False
        pl = operand_place(a)
        if pl is None or pl[1]:
            return False
        c = source_call(fn, pl[0])
        return c is not None and any(c.name.endswith(s_) for s_ in callee_suffixes)

    return Assume(desc or "%s %s %s == %s" % ("|".join(callee_suffixes), op, const_val, value), m, value)


def from_field(field_suffix, value, desc=None):
    """branch condition / matched discriminant whose value is read (through deref/lock/as_ref chains) from a field"""
    def m(fn, kind, payload):
        if kind not in ("field", "call") or payload is None:
            return False
        return any(f.endswith(field_suffix) for f in origin_fields(fn, kind, payload))

    return Assume(desc or "%s is %s" % (field_suffix, value), m, value)


def bool_field(field_suffix, value):
    def m(fn, kind, payload):
        return kind == "field" and any(f.endswith(field_suffix) for f in place_fields(payload))

    return Assume("%s == %s" % (field_suffix, value), m, value)


def switch_cond_origin(fn, bb):
    t = fn.blocks[bb]["t"]
    if t[0] != "switch":
        return None
    op = t[1]
    pl = operand_place(op)
    if pl is None:
        return None
    if pl[1]:
        return ("field", pl, False)
    return fn.origin(pl[0])


def disc_origin(fn, bb):
    """for `switchInt(discriminant(place))`: origin of the place's base local"""
    t = fn.blocks[bb]["t"]
    pl = operand_place(t[1])
    if pl is None or pl[1]:
        return None
    ds = fn.defs().get(pl[0], [])
    if len(ds) != 1 or ds[0][0] != "stmt" or ds[0][3][0] != "disc":
        return None
    dp = ds[0][3][1]
    if dp[1] and dp[1] != ["*"]:
        return ("field", dp, False)
    return fn.origin(dp[0])


def assumed_cuts(fn, assumptions):
    """edges (a,b) infeasible under the assumptions; also returns list of (bb, desc) applied"""
    cuts = set()
    applied = []
    for bb, b in enumerate(fn.blocks):
        t = b["t"]
        if t[0] == "switch" and t[2] != "bool":
            o = disc_origin(fn, bb)
            if o is None:
                continue
            kind, payload, _ = o
            alt = None
            if kind == "call" and payload is not None and payload.name.endswith("ops::Try>::branch") and payload.args:
                pl0 = operand_place(payload.args[0])
                if pl0 is not None and not pl0[1]:
                    alt = source_call(fn, pl0[0])
            for a in assumptions:
                if isinstance(a.value, bool):
                    continue
                if not (a.matcher(fn, kind, payload) or (alt is not None and a.matcher(fn, "call", alt))):
                    continue
                keep = [x[1] for x in t[3] if x[0] == a.value]
                if not keep:
                    keep = [t[4]]
                for s_ in [x[1] for x in t[3]] + [t[4]]:
                    if s_ not in keep:
                        cuts.add((bb, s_))
                applied.append((bb, a.desc))
                break
            continue
        if t[0] != "switch" or t[2] != "bool":
            continue
        o = switch_cond_origin(fn, bb)
        if o is None:
            continue
        kind, payload, neg = o
        for a in assumptions:
            if isinstance(a.value, bool) and a.matcher(fn, kind, payload):
                v = a.value != neg  # value of the switch operand
                # targets: [[0, bbFalse]] otherwise bbTrue   (bool switch)
                false_t = [x[1] for x in t[3] if x[0] == 0]
                true_t = [x[1] for x in t[3] if x[0] == 1] or [t[4]]
                if not false_t:
                    false_t = [t[4]]
                if v:
                    for ft in false_t:
                        if ft not in true_t:
                            cuts.add((bb, ft))
                else:
                    for tt in true_t:
                        if tt not in false_t:
                            cuts.add((bb, tt))
                applied.append((bb, a.desc))
                break
    return cuts, applied


# ---------------- return-value classification ----------------
def ret_assign_kind_stmt(s):
    """classify an assignment to _0: 'ok' | 'err' | 'maybe' | None (not an assignment to _0)"""
    if s[0] == "=" and s[1][0] == 0:
        if s[1][1]:
            return "maybe"
        rv = s[2]
        if rv[0] == "agg" and rv[1] == "adt" and rv[2].endswith("result::Result"):
            return "err" if rv[3] == "Err" else "ok"
        return "maybe"
    if s[0] == "setdisc" and s[1][0] == 0 and not s[1][1]:
        return "maybe"
    return None


def block_ret_effect(fn, bb):
    """last classification of _0 written by this block (statements, then call destination)"""
    last = None
    b = fn.blocks[bb]
    for s in b["s"]:
        k = ret_assign_kind_stmt(s)
        if k:
            last = k
    t = b["t"]
    if t[0] == "call" and t[3][0] == 0 and not t[3][1]:
        n = (t[1].get("p") or "")
        last = "err" if n.endswith("FromResidual::from_residual") else "maybe"
    return last


def flag_locals(fn):
    """bool locals all of whose definitions are constant assignments (drop-flag style state variables)"""
    if getattr(fn, "_flags", None) is not None:
        return fn._flags
    out = set()
    for l, ds in fn.defs().items():
        if fn.locals[l] != "bool" or not ds:
            continue
        if all(d[0] == "stmt" and d[3][0] == "use" and d[3][1][0] == "k" and d[3][1][4] in (0, 1) for d in ds):
            out.add(l)
    fn._flags = out
    return out


def switch_flag(fn, bb, flags):
    """(flag_local, negated) if the bool switch at bb tests a flag local through copy/Not chains"""
    t = fn.blocks[bb]["t"]
    if t[0] != "switch" or t[2] != "bool":
        return None
    pl = operand_place(t[1])
    if pl is None or pl[1]:
        return None
    l = pl[0]
    neg = False
    for _ in range(6):
        if l in flags:
            return (l, neg)
        ds = fn.defs().get(l, [])
        if len(ds) != 1 or ds[0][0] != "stmt":
            return None
        rv = ds[0][3]
        if rv[0] == "use" and rv[1][0] in ("c", "m") and not rv[1][1][1]:
            l = rv[1][1][0]
        elif rv[0] == "un" and rv[1] == "Not" and rv[2][0] in ("c", "m") and not rv[2][1][1]:
            l = rv[2][1][0]
            neg = not neg
        else:
            return None
    return None


def exhausted_edges(fn):
    """for-loop exits: (block, target) edges taken when `Iterator::next()` returned None, keyed by loop header"""
    out = {}
    for h, body in fn.loops():
        for bb in body:
            t = fn.blocks[bb]["t"]
            if t[0] != "switch" or t[2] == "bool":
                continue
            o = disc_origin(fn, bb)
            if not o or o[0] != "call" or o[1] is None:
                continue
            if not (o[1].name.endswith("Iterator>::next") or o[1].name.endswith("Iterator::next")):
                continue
            for val, tgt in t[3]:
                if val == 0 and tgt not in body:
                    out[(bb, tgt)] = h
    return out


def success_escapes(fn, starts, t_blocks, cuts=(), init="?", limit=5, returns_result=None, nonempty_loops=False):
    """Paths from `starts` to a Return that (a) never pass through a block in t_blocks, (b) do not use
    `cuts`, (c) do not end with _0 = Err / from_residual.  Returns list of witness block paths."""
    if returns_result is None:
        returns_result = "result::Result<" in fn.ret
    t_blocks = set(t_blocks)
    cuts = set(cuts)
    succs = fn.succs()
    seen = {}
    stack = []
    ex = exhausted_edges(fn) if nonempty_loops else {}
    backs = {}
    if ex:
        dom = fn.dominators()
        for a in dom:
            for h in succs[a]:
                if h in dom.get(a, ()):
                    backs[(a, h)] = h
    flags = flag_locals(fn)
    # only flags that are actually tested matter
    tested = {}
    if flags:
        for b_ in range(len(fn.blocks)):
            sf = switch_flag(fn, b_, flags)
            if sf:
                tested[b_] = sf
    live_flags = {sf[0] for sf in tested.values()}
    flag_sets = {}
    if live_flags:
        for b_, blk in enumerate(fn.blocks):
            for st_ in blk["s"]:
                if st_[0] == "=" and not st_[1][1] and st_[1][0] in live_flags and st_[2][0] == "use" and st_[2][1][0] == "k":
                    flag_sets.setdefault(b_, []).append((st_[1][0], st_[2][1][4]))
    for s in starts:
        if s in t_blocks:
            continue
        stack.append((s, init, None, frozenset(), frozenset()))
    found = []
    while stack:
        bb, last, parent, iterated, fl = stack.pop()
        eff = block_ret_effect(fn, bb)
        if eff:
            last_out = eff
        else:
            last_out = last
        if bb in flag_sets:
            d_ = dict(fl)
            for l_, v_ in flag_sets[bb]:
                d_[l_] = v_
            fl = frozenset(d_.items())
        key = (bb, last_out, iterated, fl) if (ex or live_flags) else (bb, last_out)
        if key in seen:
            continue
        seen[key] = parent
        t = fn.blocks[bb]["t"]
        if t[0] == "ret":
            if (not returns_result) or last_out != "err":
                # reconstruct
                path = [bb]
                p = parent
                while p is not None:
                    path.append(p[0])
                    p = seen.get(p)
                found.append(list(reversed(path)))
                if len(found) >= limit:
                    break
            continue
        allowed = None
        if bb in tested:
            l_, neg_ = tested[bb]
            v_ = dict(fl).get(l_)
            if v_ is not None:
                val = bool(v_) != neg_
                t_ = fn.blocks[bb]["t"]
                false_t = [x[1] for x in t_[3] if x[0] == 0] or [t_[4]]
                true_t = [x[1] for x in t_[3] if x[0] == 1] or [t_[4]]
                allowed = set(true_t if val else false_t)
        for s in succs[bb]:
            if s in t_blocks or (bb, s) in cuts:
                continue
            if allowed is not None and s not in allowed:
                continue
            it2 = iterated
            if ex:
                h = ex.get((bb, s))
                if h is not None and h not in iterated:
                    continue  # the loop is assumed to run at least once
                hb = backs.get((bb, s))
                if hb is not None:
                    it2 = iterated | {hb}
            stack.append((s, last_out, key, it2, fl))
    return found


def describe_path(fn, path, maxn=14):
    lines = []
    lastl = None
    for bb in path:
        l = fn.blocks[bb].get("l")
        if l != lastl:
            lines.append(l)
            lastl = l
    if len(lines) > maxn:
        lines = lines[: maxn // 2] + ["..."] + lines[-maxn // 2:]
    return "%s lines %s" % (fn.file, "→".join(str(x) for x in lines))


# ---------------- MUST-PASS / ORDER ----------------
def t_blocks_of(fn, tpred):
    return [c.bb for c in fn.calls if tpred(c)]


def must_pass(fn, tpred, assumptions=(), starts=None, nonempty_loops=False):
    """returns (holds, witnesses, info). Success paths from entry (or `starts`) must pass a call with tpred."""
    cuts, applied = assumed_cuts(fn, assumptions)
    tb = t_blocks_of(fn, tpred)
    esc = success_escapes(fn, [0] if starts is None else starts, tb, cuts, nonempty_loops=nonempty_loops)
    return (not esc, esc, {"t_sites": len(tb), "assumed": applied})


def order_after(fn, wpred, tpred, assumptions=()):
    """for each call W in fn: every success path from W's normal successor passes T.
    returns list of (wcall, holds, witnesses)"""
    cuts, applied = assumed_cuts(fn, assumptions)
    tb = t_blocks_of(fn, tpred)
    out = []
    for c in fn.calls:
        if not wpred(c):
            continue
        if c.target is None:
            continue
        # only W sites feasible under the assumptions
        if c.bb not in fn.reachable([0], cut_edges=cuts):
            continue
        esc = success_escapes(fn, [c.target], tb, cuts)
        out.append((c, not esc, esc))
    return out, {"t_sites": len(tb), "assumed": applied}


def must_reach_closure(model, base_pred, assumptions=(), scope=None, max_iter=30, nonempty=lambda f: False):
    """least fixpoint: set of fn keys all of whose success paths pass base_pred or a call to a member."""
    M = set()
    cands = scope if scope is not None else list(model.fns.keys())
    # restrict to functions that may reach a base call at all
    may = set()
    for k in cands:
        f = model.fns[k]
        if any(base_pred(c) for c in f.calls):
            may.add(k)
    # backward closure over callers
    callers = model.callers()
    st = list(may)
    while st:
        k = st.pop()
        for p in callers.get(k, ()):
            if p not in may and (scope is None or p in scope):
                may.add(p)
                st.append(p)
    for _ in range(max_iter):
        changed = False
        for k in sorted(may - M):
            f = model.fns[k]
            pred = lambda c: base_pred(c) or c.name in M
            ok, _, _ = must_pass(f, pred, assumptions, nonempty_loops=nonempty(f))
            if ok:
                M.add(k)
                changed = True
        if not changed:
            break
    return M


def is_method(c, trait_suffix, method):
    """call of `method` of a trait, whether resolved to an impl (`<T as Trait>::m`) or to the provided default (`Trait::m`)"""
    n = c.name
    return n.endswith(trait_suffix + ">::" + method) or n.endswith(trait_suffix + "::" + method)


def const_value(fn, op, depth=8):
    """integer value of an operand if it is a compile-time constant expression (consts, casts, +,-,* of consts)"""
    if depth <= 0 or op is None:
        return None
    if op[0] == "k":
        return op[4]
    pl = operand_place(op)
    if pl is None:
        return None
    l, proj = pl
    ds = fn.defs().get(l, [])
    if len(ds) != 1 or ds[0][0] != "stmt":
        return None
    rv = ds[0][3]
    if proj:
        # (_t.0) of a checked arithmetic tuple
        if len(proj) == 1 and proj[0][0] == "f" and proj[0][1] == 0 and rv[0] == "bin" and rv[1].endswith("WithOverflow"):
            a = const_value(fn, rv[2], depth - 1)
            b = const_value(fn, rv[3], depth - 1)
            if a is None or b is None:
                return None
            return {"Add": a + b, "Sub": a - b, "Mul": a * b}.get(rv[1][:3])
        return None
    if rv[0] == "use":
        return const_value(fn, rv[1], depth - 1)
    if rv[0] == "cast":
        return const_value(fn, rv[2], depth - 1)
    if rv[0] == "bin" and rv[1] in ("Add", "Sub", "Mul", "AddUnchecked", "SubUnchecked", "MulUnchecked"):
        a = const_value(fn, rv[2], depth - 1)
        b = const_value(fn, rv[3], depth - 1)
        if a is None or b is None:
            return None
        return {"Add": a + b, "Sub": a - b, "Mul": a * b}.get(rv[1][:3])
    return None
