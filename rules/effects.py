"""SIB effect matrices: which effect kinds each row-writing entry point reaches (call-graph reachability with closures,
stopping at re-entrant SQL entry points)."""
import common

EFFECTS = {
    "validate":   lambda c: "ConstraintValidator" in c.name and c.name.rsplit("::", 1)[-1] in ("validate_insert", "validate_update", "validate_not_null"),
    "check":      lambda c: c.name.endswith("evaluate_check_expression") or ("ConstraintValidator" in c.name and c.name.endswith("validate_check")),
    "fk_parent":  lambda c: c.name.endswith("fk_table_scan_check") or "foreign_key" in c.name.rsplit("::", 1)[-1],
    "index":      lambda c: c.name.endswith("FileManager::index_data_mut") or c.name.endswith("FileManager::index_data"),
    "hnsw":       lambda c: "PersistentHnswIndex" in c.name and c.name.rsplit("::", 1)[-1] in ("insert", "delete", "update", "mark_deleted"),
    "toast":      lambda c: c.name.endswith("::toast_value") or c.name.endswith("::delete_toast_chunks") or "make_chunk_key" in c.name,
    "auto_inc":   lambda c: c.name.endswith("TableFileHeader::set_auto_increment"),
    "row_count":  lambda c: c.name.endswith("TableFileHeader::set_row_count"),
    "write_entry": lambda c: "ActiveTransaction::add_write_entr" in c.name,
    "mvcc_wrap":  lambda c: "wrap_record_for_" in c.name,
    "wal_wrap":   lambda c: c.name.endswith("WalStoragePerTable::<'a>::new"),
    "flush":      lambda c: c.name.endswith("flush_wal_if_autocommit") or c.name.endswith("flush_wal_for_table"),
    "writable":   lambda c: c.name.endswith("check_writable"),
}


def matrix(m, entries, effects=EFFECTS):
    """entry fn -> {effect: [(fn, call)...]}"""
    out = {}
    for f in entries:
        reach = m.reach_from([f.key], stop=lambda k: k != f.key and common.is_sql_entry(k))
        row = {}
        for k in reach:
            g = m.fns[k]
            for c in g.calls:
                for e, pred in effects.items():
                    if pred(c):
                        row.setdefault(e, []).append((g, c))
        out[f.key] = row
    return out
