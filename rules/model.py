"""Program model over the facts dumped by driver/ (MIR CFGs with resolved callees).
Pure static: nothing here runs TurDB code."""
import json, os, sys, hashlib, subprocess, pickle, time, fcntl, collections

VERIF = os.path.dirname(os.path.dirname(os.path.abspath(__file__)))
CACHE = os.path.join(VERIF, ".cache")
DRIVER = os.path.join(VERIF, "driver", "target", "release", "turdb-facts")


class CheckError(Exception):
    """The check could not be evaluated (missing anchor, stale facts, floor not met)."""


def tree_hash(repo):
    h = hashlib.sha256()
    files = []
    for root in ("src",):
        for dp, dn, fn in os.walk(os.path.join(repo, root)):
            dn.sort()
            for f in sorted(fn):
                files.append(os.path.join(dp, f))
    for f in ("Cargo.toml", "Cargo.lock", "build.rs"):
        p = os.path.join(repo, f)
        if os.path.exists(p):
            files.append(p)
    for p in files:
        h.update(os.path.relpath(p, repo).encode())
        h.update(b"\0")
        with open(p, "rb") as fh:
            h.update(fh.read())
        h.update(b"\0")
    with open(DRIVER, "rb") as fh:
        h.update(hashlib.sha256(fh.read()).digest())
    return h.hexdigest()[:20]


def ensure_driver():
    if not os.path.exists(DRIVER):
        r = subprocess.run(["cargo", "build", "--release", "--offline"], cwd=os.path.join(VERIF, "driver"),
                           stdout=subprocess.PIPE, stderr=subprocess.STDOUT, text=True)
        if r.returncode != 0 or not os.path.exists(DRIVER):
            raise CheckError("driver build failed:\n" + r.stdout[-2000:])


def ensure_facts(repo="/repo", features=""):
    """Returns path of the facts file for the *current* working tree of `repo` (content-hashed)."""
    ensure_driver()
    os.makedirs(CACHE, exist_ok=True)
    key = tree_hash(repo) + ("-" + features.replace(",", "_") if features else "")
    out = os.path.join(CACHE, "facts-%s.jsonl" % key)
    lock = open(os.path.join(CACHE, "lock"), "w")
    fcntl.flock(lock, fcntl.LOCK_EX)
    try:
        if not os.path.exists(out):
            # keep the cache small
            old = sorted((f for f in os.listdir(CACHE) if f.startswith("facts-")),
                         key=lambda f: os.path.getmtime(os.path.join(CACHE, f)))
            for f in old[:-8]:
                try:
                    os.remove(os.path.join(CACHE, f))
                except OSError:
                    pass
            tmp = out + ".tmp"
            args = [os.path.join(VERIF, "tools", "run_driver.sh"), repo, tmp]
            if features:
                args.append("--features=" + features)
            r = subprocess.run(args, stdout=subprocess.PIPE, stderr=subprocess.STDOUT, text=True)
            if r.returncode != 0 or not os.path.exists(tmp):
                raise CheckError("fact extraction failed (does /repo compile?):\n" + r.stdout[-3000:])
            with open(tmp, "rb") as fh:
                fh.seek(max(0, os.path.getsize(tmp) - 200))
                if b'"trailer":true' not in fh.read():
                    raise CheckError("fact file truncated")
            os.rename(tmp, out)
            for ext in (".tmp.log",):
                try:
                    os.remove(out + ext)
                except OSError:
                    pass
    finally:
        fcntl.flock(lock, fcntl.LOCK_UN)
    return out


# ----------------------------------------------------------------------------------------------
class Call:
    """light call-site record; operands are fetched lazily from the function's blocks"""
    __slots__ = ("fn", "bb", "name", "full", "generic_name", "resolved", "tm", "local", "line", "exp", "target")

    def __init__(self, fn, bb, t):
        self.fn = fn
        self.bb = bb
        c = t[1]
        if c.get("p") is None:
            self.name = self.full = self.generic_name = "<indirect>"
        else:
            self.generic_name = c["p"]
            if c.get("r") and c.get("rp"):
                self.name = c["rp"]
                self.full = c.get("rpa") or c["pa"]
            else:
                self.name = c["p"]
                self.full = c["pa"]
        self.resolved = bool(c.get("r"))
        self.tm = bool(c.get("tm"))
        self.local = bool(c.get("local"))
        self.target = t[4]
        self.line = t[6]
        self.exp = t[7]

    @property
    def term(self):
        return self.fn.blocks[self.bb]["t"]

    @property
    def callee(self):
        return self.term[1]

    @property
    def args(self):
        return self.term[2]

    @property
    def dest(self):
        return self.term[3]

    @property
    def unwind(self):
        return self.term[5]

    def loc(self):
        return "%s:%s" % (self.fn.file, self.line)

    def __repr__(self):
        return "Call(%s @%s bb%d)" % (self.full, self.loc(), self.bb)


class Fn:
    def __init__(self, r):
        self.id = r["id"]
        self.kind = r["kind"]
        self.vis = r["vis"]
        self.file = r["file"]
        self.line = r["line"]
        self.parent = r["parent"]
        self.self_ty = r["self_ty"]
        self.trait = r["trait"]
        self.ret = r["ret"]
        self.nargs = r["nargs"]
        self.discards = r["discards"]
        self.calls = []
        self.nblocks = len(r["blocks"])
        for i, b in enumerate(r["blocks"]):
            t = b["t"]
            if t[0] == "call":
                self.calls.append(Call(self, i, t))
        self._heavy = None
        self._off = None
        self._path = None
        self._succ = None
        self._pred = None
        self._dom = None
        self._defs = None
        self._loops = None
        self._flags = None

    def _load(self):
        if self._heavy is None:
            with open(self._path, "rb") as fh:
                fh.seek(self._off)
                r = json.loads(fh.readline())
            assert r["id"] == self.id
            self._heavy = r
        return self._heavy

    @property
    def blocks(self):
        return self._load()["blocks"]

    @property
    def locals(self):
        return self._load()["locals"]

    @property
    def dbg(self):
        return self._load()["dbg"]

    def __getstate__(self):
        d = dict(self.__dict__)
        for k in ("_heavy", "_succ", "_pred", "_dom", "_defs", "_loops", "_flags"):
            d[k] = None
        return d

    # ---- CFG ----
    def succ(self, bb, unwind=False):
        t = self.blocks[bb]["t"]
        k = t[0]
        out = []
        if k == "goto":
            out = [t[1]]
        elif k == "switch":
            out = [x[1] for x in t[3]] + [t[4]]
        elif k == "drop":
            out = [t[2]] + ([t[3]] if unwind and t[3] is not None else [])
        elif k == "call":
            if t[4] is not None:
                out.append(t[4])
            if unwind and t[5] is not None:
                out.append(t[5])
        elif k == "assert":
            out = [t[4]]
        return out

    def succs(self):
        if self._succ is None:
            self._succ = [self.succ(i) for i in range(len(self.blocks))]
        return self._succ

    def preds(self):
        if self._pred is None:
            p = [[] for _ in self.blocks]
            for i, ss in enumerate(self.succs()):
                for s in ss:
                    p[s].append(i)
            self._pred = p
        return self._pred

    def call_at(self, bb):
        t = self.blocks[bb]["t"]
        if t[0] == "call":
            for c in self.calls:
                if c.bb == bb:
                    return c
        return None

    def return_blocks(self):
        return [i for i, b in enumerate(self.blocks) if b["t"][0] == "ret"]

    def reachable(self, starts, blocked=(), cut_edges=()):
        """blocks reachable from `starts` (inclusive) without entering `blocked` and without using cut_edges."""
        blocked = set(blocked)
        cut = set(cut_edges)
        seen = set()
        st = [s for s in starts if s not in blocked]
        while st:
            b = st.pop()
            if b in seen:
                continue
            seen.add(b)
            for s in self.succs()[b]:
                if s in blocked or (b, s) in cut or s in seen:
                    continue
                st.append(s)
        return seen

    def dominators(self):
        """immediate-dominator-free simple dominator sets (iterative); fine for our sizes."""
        if self._dom is not None:
            return self._dom
        n = len(self.blocks)
        reach = self.reachable([0])
        order = sorted(reach)
        dom = {b: set(order) for b in order}
        dom[0] = {0}
        preds = self.preds()
        changed = True
        while changed:
            changed = False
            for b in order:
                if b == 0:
                    continue
                ps = [p for p in preds[b] if p in reach]
                if not ps:
                    continue
                new = set.intersection(*(dom[p] for p in ps)) | {b}
                if new != dom[b]:
                    dom[b] = new
                    changed = True
        self._dom = dom
        return dom

    def loops(self):
        """natural loops: list of (header, body_set)"""
        if getattr(self, "_loops", None) is not None:
            return self._loops
        dom = self.dominators()
        preds = self.preds()
        loops = {}
        for a in dom:
            for h in self.succs()[a]:
                if h in dom.get(a, ()):  # back edge a -> h
                    body = loops.setdefault(h, {h})
                    st = [a]
                    while st:
                        x = st.pop()
                        if x in body:
                            continue
                        body.add(x)
                        st.extend(p for p in preds[x] if p in dom)
        self._loops = sorted(loops.items())
        return self._loops

    def dominates(self, a, b):
        d = self.dominators()
        return b in d and a in d[b]

    # ---- defs / origins ----
    def defs(self):
        """local -> list of ('stmt', bb, idx, rvalue) | ('call', bb, Call) that assign the whole local"""
        if self._defs is None:
            d = collections.defaultdict(list)
            for i, b in enumerate(self.blocks):
                for j, s in enumerate(b["s"]):
                    if s[0] == "=" and not s[1][1]:
                        d[s[1][0]].append(("stmt", i, j, s[2]))
                t = b["t"]
                if t[0] == "call" and not t[3][1]:
                    d[t[3][0]].append(("call", i, self.call_at(i)))
            self._defs = d
        return self._defs

    def origin(self, local, depth=12, neg=False):
        """follow single-definition copy/ref/cast/Not chains; returns (kind, payload, negated)
        kind in {'call','field','const','arg','unknown', 'rvalue'}"""
        seen = set()
        while depth > 0:
            depth -= 1
            if local in seen:
                return ("unknown", None, neg)
            seen.add(local)
            if 1 <= local <= self.nargs:
                ds = self.defs().get(local, [])
                if not ds:
                    return ("arg", local, neg)
            ds = self.defs().get(local, [])
            if len(ds) != 1:
                return ("unknown", ds, neg)
            d = ds[0]
            if d[0] == "call":
                return ("call", d[2], neg)
            rv = d[3]
            k = rv[0]
            if k == "use":
                op = rv[1]
                if op[0] in ("c", "m"):
                    pl = op[1]
                    if not pl[1]:
                        local = pl[0]
                        continue
                    return ("field", pl, neg)
                if op[0] == "k":
                    return ("const", op, neg)
                return ("unknown", rv, neg)
            if k == "ref" or k == "ptr":
                pl = rv[2]
                if not pl[1]:
                    local = pl[0]
                    continue
                if pl[1] == ["*"]:
                    local = pl[0]
                    continue
                return ("field", pl, neg)
            if k == "cast":
                op = rv[2]
                if op[0] in ("c", "m") and not op[1][1]:
                    local = op[1][0]
                    continue
                return ("rvalue", rv, neg)
            if k == "un" and rv[1] == "Not":
                op = rv[2]
                if op[0] in ("c", "m") and not op[1][1]:
                    local = op[1][0]
                    neg = not neg
                    continue
                return ("rvalue", rv, neg)
            return ("rvalue", rv, neg)
        return ("unknown", None, neg)

    def loc(self, bb=None):
        if bb is None:
            return "%s:%s" % (self.file, self.line)
        return "%s:%s" % (self.file, self.blocks[bb].get("l", self.line))

    def field_names_in_place(self, place):
        return [p[2] for p in place[1] if isinstance(p, list) and p[0] == "f" and p[2]]

    def __repr__(self):
        return "Fn(%s)" % self.id


def place_fields(place):
    return [p[2] for p in place[1] if isinstance(p, list) and p[0] == "f" and p[2]]


def operand_place(op):
    if op and op[0] in ("c", "m"):
        return op[1]
    return None


class Model:
    def __init__(self, path):
        self.path = path
        self.fns = {}
        self.adts = {}
        self.consts = {}
        self.header = None
        self.trailer = None
        with open(path, "rb") as fh:
            while True:
                off = fh.tell()
                line = fh.readline()
                if not line:
                    break
                r = json.loads(line)
                if "id" in r:
                    f = Fn(r)
                    f._off = off
                    f._path = path
                    k = f.id
                    n = 2
                    while k in self.fns:
                        k = "%s#%d" % (f.id, n)
                        n += 1
                    f.key = k
                    self.fns[k] = f
                elif "adt" in r:
                    self.adts[r["adt"]] = r
                elif "const" in r:
                    self.consts[r["const"]] = r
                elif "header" in r:
                    self.header = r
                elif "trailer" in r:
                    self.trailer = r
        if not self.trailer or self.trailer["functions"] != len(self.fns):
            raise CheckError("facts incomplete")
        self._callers = None
        self._children = None
        self._trait_impls = None

    # ---- lookup ----
    def fn(self, id_):
        f = self.fns.get(id_)
        if f is None:
            raise CheckError("anchor function not found: %s" % id_)
        return f

    def find(self, pred):
        return [f for f in self.fns.values() if pred(f)]

    def fns_matching(self, suffix):
        return [f for f in self.fns.values() if f.id == suffix or f.id.endswith("::" + suffix)]

    def closures_of(self, f):
        if self._children is None:
            ch = collections.defaultdict(list)
            for g in self.fns.values():
                if g.kind == "closure" and g.parent:
                    ch[g.parent].append(g)
            self._children = ch
        return self._children.get(f.id, [])

    def trait_impls(self):
        """generic trait method path -> list of impl fn ids (by method name + trait path)"""
        if self._trait_impls is None:
            d = collections.defaultdict(list)
            for f in self.fns.values():
                if f.trait and f.kind == "assoc":
                    m = f.id.rsplit("::", 1)[-1]
                    d[f.trait + "::" + m].append(f.key)
            self._trait_impls = d
        return self._trait_impls

    def callees_of(self, f, may=True, with_closures=True):
        """set of function keys f may call (resolved + all impls for unresolved trait calls if may)"""
        out = set()
        for c in f.calls:
            n = c.name
            if n in self.fns:
                out.add(n)
            elif may and not c.resolved and c.callee.get("tm"):
                for k in self.trait_impls().get(c.callee["p"], []):
                    out.add(k)
        if with_closures:
            for g in self.closures_of(f):
                out.add(g.key)
        return out

    def callers(self):
        if self._callers is None:
            d = collections.defaultdict(set)
            for f in self.fns.values():
                for k in self.callees_of(f):
                    d[k].add(f.key)
            self._callers = d
        return self._callers

    def callers_closure(self, keys):
        """all functions that may (transitively) call one of `keys`, including the keys"""
        seen = set()
        st = list(keys)
        cs = self.callers()
        while st:
            k = st.pop()
            if k in seen:
                continue
            seen.add(k)
            st.extend(cs.get(k, ()))
        return seen

    def reach_from(self, roots, stop=lambda k: False):
        seen = set()
        st = list(roots)
        while st:
            k = st.pop()
            if k in seen or k not in self.fns:
                continue
            seen.add(k)
            if stop(k):
                continue
            for c in self.callees_of(self.fns[k]):
                if c not in seen:
                    st.append(c)
        return seen

    def calls_named(self, f, pred, with_closures=True):
        """all Call objects in f (and its closures, recursively) whose resolved name satisfies pred"""
        out = [c for c in f.calls if pred(c)]
        if with_closures:
            for g in self.closures_of(f):
                out += self.calls_named(g, pred, True)
        return out

    def may_reach_callee(self, roots, pred, stop=lambda k: False):
        """does any function reachable from roots contain a call satisfying pred? returns list of (fn, call)"""
        hits = []
        for k in self.reach_from(roots, stop):
            for c in self.fns[k].calls:
                if pred(c):
                    hits.append((self.fns[k], c))
        return hits

    def call_path(self, root, target_pred, maxlen=12):
        """BFS for a call chain root -> ... -> fn containing a call satisfying target_pred"""
        from collections import deque
        q = deque([(root, [root])])
        seen = {root}
        while q:
            k, path = q.popleft()
            f = self.fns.get(k)
            if not f:
                continue
            for c in f.calls:
                if target_pred(c):
                    return path + [c.full]
            if len(path) >= maxlen:
                continue
            for n in sorted(self.callees_of(f)):
                if n not in seen:
                    seen.add(n)
                    q.append((n, path + [n]))
        return None


_MODEL = {}


def load_model(repo="/repo", features=""):
    path = ensure_facts(repo, features)
    if path in _MODEL:
        return _MODEL[path]
    pk = path + ".idx2"
    m = None
    if os.path.exists(pk) and os.path.getmtime(pk) >= os.path.getmtime(path):
        try:
            with open(pk, "rb") as fh:
                m = pickle.load(fh)
        except Exception:
            m = None
    if m is None:
        m = Model(path)
        try:
            sys.setrecursionlimit(100000)
            tmp = pk + ".%d" % os.getpid()
            with open(tmp, "wb") as fh:
                pickle.dump(m, fh, protocol=pickle.HIGHEST_PROTOCOL)
            os.rename(tmp, pk)
        except Exception:
            pass
    _MODEL[path] = m
    return m
