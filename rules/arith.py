"""ARITH: panic sites of signed 64/128-bit integer arithmetic on SQL values (MIR overflow/zero-divide Asserts and calls to the
panicking std operator impls / pow / abs), each either discharged by intervals.py or reported."""
import re
import intervals

OPCALL = re.compile(r"<&?'?_? ?(i64|i128) as std::ops::(Add|Sub|Mul|Div|Rem|Neg)(?:<&?'?_? ?(?:i64|i128)>)?>::(add|sub|mul|div|rem|neg)$")
NUMCALL = re.compile(r"num::<impl (i64|i128)>::(pow|abs|div_euclid|rem_euclid|next_power_of_two)$")
SIGNED = ("i64", "i128")


def sites(f):
    """[(kind, discharged, why, line)]"""
    out = []
    for bb, k, ok, why, line in intervals.discharge_asserts(f):
        if not k.startswith(("overflow", "div_zero", "rem_zero")):
            continue
        t = f.blocks[bb]["t"][3]
        ty = t[2]["ty"] if k.startswith("overflow:") else t[1]["ty"]
        if ty not in SIGNED:
            continue
        out.append((k.replace("overflow:", "").lower() if k.startswith("overflow:") else k, ok, why, line))
    for c in f.calls:
        mm = OPCALL.search(c.full)
        if mm:
            out.append((mm.group(3) + "(ref)", False, "panicking operator impl %s on SQL integers without a checked variant" % mm.group(3), c.line))
            continue
        mm = NUMCALL.search(c.full)
        if mm:
            out.append((mm.group(2), False, "%s::%s panics (debug) or wraps (release) on overflow" % (mm.group(1), mm.group(2)), c.line))
    return out
