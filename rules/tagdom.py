"""TAGDOM: abstract evaluation of a two-argument comparator over the variant-tag domain.  Each argument's enum discriminant is
fixed to one variant, payloads are unknown; switches on those discriminants follow the fixed variant, every other branch forks.
The result is the set of `Ordering` outcomes that can be written to the return place."""
from model import operand_place


def arg_root(f, pl, depth=10):
    """which parameter (1-based) a place ultimately denotes, through refs, derefs, copies and tuple-of-args fields"""
    l, proj = pl[0], list(pl[1])
    while depth > 0:
        depth -= 1
        proj = [p for p in proj if p != "*" and not (isinstance(p, list) and p[0] == "d")]
        if 1 <= l <= f.nargs and not f.defs().get(l) and not any(isinstance(p, list) and p[0] == "f" for p in proj):
            return l
        ds = f.defs().get(l, [])
        if len(ds) != 1 or ds[0][0] != "stmt":
            return None
        rv = ds[0][3]
        fld = [p for p in proj if isinstance(p, list) and p[0] == "f"]
        if rv[0] == "agg" and rv[1] == "tuple" and fld:
            op = rv[4][fld[0][1]] if fld[0][1] < len(rv[4]) else None
            q = operand_place(op) if op else None
            if q is None:
                return None
            l, proj = q[0], list(q[1]) + [p for p in proj if p is not fld[0]]
            continue
        if fld:
            return None
        if rv[0] == "use":
            q = operand_place(rv[1])
        elif rv[0] in ("ref", "ptr"):
            q = rv[2]
        else:
            return None
        if q is None:
            return None
        l, proj = q[0], list(q[1])
    return None


def outcomes(f, m, adt_name, va, vb, limit=20000):
    adt = m.adts[adt_name]
    disc = {v["name"]: int(v["discr"]) for v in adt["variants"]}
    want = {1: disc[va], 2: disc[vb]}
    seen = set()
    out = set()
    st = [(0, None)]
    steps = 0
    while st:
        bb, last = st.pop()
        steps += 1
        if steps > limit:
            out.add("?")
            break
        b = f.blocks[bb]
        for s in b["s"]:
            if s[0] == "=" and s[1][0] == 0:
                rv = s[2]
                if rv[0] == "agg" and rv[2].endswith("cmp::Ordering"):
                    last = rv[3]
                elif rv[0] == "agg" and rv[2].endswith("option::Option"):
                    last = "Option::" + rv[3]
                elif rv[0] == "use" and rv[1][0] == "k" and "Ordering::" in str(rv[1][1]):
                    last = str(rv[1][1]).rsplit("::", 1)[-1]
                else:
                    last = "dynamic"
        key = (bb, last)
        if key in seen:
            continue
        seen.add(key)
        t = b["t"]
        if t[0] == "ret":
            out.add(last)
            continue
        if t[0] == "call" and t[3][0] == 0 and not t[3][1]:
            last = "dynamic"
        nxt = f.succ(bb)
        if t[0] == "switch" and t[2] != "bool":
            pl = operand_place(t[1])
            ds = f.defs().get(pl[0], []) if pl and not pl[1] else []
            if len(ds) == 1 and ds[0][0] == "stmt" and ds[0][3][0] == "disc":
                a = arg_root(f, ds[0][3][1])
                if a in want:
                    tg = [x[1] for x in t[3] if x[0] == want[a]]
                    nxt = tg if tg else [t[4]]
        for n_ in nxt:
            st.append((n_, last))
    return out
