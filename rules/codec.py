"""CODEC tables extracted from MIR: what a writer emits per tag / variant and what the reader consumes.
Everything here is read off the CFG (regions dominated by a switch arm / by the tag-emitting call); nothing is run."""
import re
from model import operand_place, place_fields, CheckError
from paths import const_value, source_call, disc_origin

INT_W = {"u8": 1, "i8": 1, "u16": 2, "i16": 2, "u32": 4, "i32": 4, "u64": 8, "i64": 8, "u128": 16, "i128": 16,
         "f32": 4, "f64": 8, "usize": 8, "isize": 8}


def int_conv(c):
    """('w'|'r', type, width, endian) for <int>::to_xx_bytes / from_xx_bytes calls"""
    n = c.full
    mm = re.search(r"<impl (\w+)>::(to|from)_(be|le|ne)_bytes$", n)
    if not mm:
        mm2 = re.search(r"(f32|f64)::(to|from)_(be|le|ne)_bytes$", n)
        if not mm2:
            return None
        ty, d, e = mm2.groups()
    else:
        ty, d, e = mm.groups()
    return ("w" if d == "to" else "r", ty, INT_W.get(ty), e)


def array_len(ty):
    mm = re.search(r"\[u8; (\d+)\]", ty)
    return int(mm.group(1)) if mm else None


def array_len_of_local(f, l, depth=6):
    """length N if the value in local `l` is (a reference / unsized view of) a `[u8; N]`, following copies, casts, refs
    and transparent calls (as_slice, as_ref, deref)"""
    while depth > 0:
        depth -= 1
        al = array_len(f.locals[l])
        if al is not None:
            return al
        ds = f.defs().get(l, [])
        if len(ds) != 1:
            return None
        d = ds[0]
        if d[0] == "call":
            c = d[2]
            if c is None or not c.args:
                return None
            if not any(c.name.endswith(x) for x in ("::as_slice", "::as_ref", "::deref", "::borrow", "::as_bytes", "index::Index<I>>::index")):
                return None
            p2 = operand_place(c.args[0])
            if p2 is None or p2[1]:
                return None
            l = p2[0]
            continue
        rv = d[3]
        nxt = None
        if rv[0] == "use":
            nxt = operand_place(rv[1])
        elif rv[0] == "cast":
            nxt = operand_place(rv[2])
        elif rv[0] in ("ref", "ptr"):
            nxt = rv[2]
        if nxt is None:
            return None
        if nxt[1] and nxt[1] != ["*"]:
            return None
        l = nxt[0]
    return None


def dominated(f, bb):
    return [b for b in f.reachable([bb]) if f.dominates(bb, b)]


def in_loop(f, bb, within=None):
    for h, body in f.loops():
        if bb in body and (within is None or h in within):
            return True
    return False


def enum_switches(f, adt_name, m):
    """switches on the discriminant of a place of enum type adt_name: list of (bb, {variant_name: target}, otherwise)"""
    adt = m.adts.get(adt_name)
    if not adt:
        raise CheckError("adt %s missing" % adt_name)
    names = {int(v["discr"]): v["name"] for v in adt["variants"]}
    out = []
    for bb, b in enumerate(f.blocks):
        t = b["t"]
        if t[0] != "switch" or t[2] == "bool":
            continue
        pl = operand_place(t[1])
        if pl is None or pl[1]:
            continue
        ds = f.defs().get(pl[0], [])
        if len(ds) != 1 or ds[0][0] != "stmt" or ds[0][3][0] != "disc":
            continue
        dp = ds[0][3][1]
        ty = f.locals[dp[0]]
        # type of the place: strip refs when deref projection is present
        base = ty.replace("&mut ", "").replace("&", "").strip()
        if dp[1] and dp[1] != ["*"]:
            continue
        if not (base == adt_name or base.startswith(adt_name + "<")):
            continue
        arms = {}
        for val, tgt in t[3]:
            arms[names.get(val, str(val))] = tgt
        out.append((bb, arms, t[4]))
    return out


def int_switches(f, min_arms=4):
    """switches on an integer tag value: list of (bb, {value: target}, otherwise, operand_local)"""
    out = []
    for bb, b in enumerate(f.blocks):
        t = b["t"]
        if t[0] != "switch" or t[2] in ("bool", "isize"):
            continue
        if len(t[3]) < min_arms:
            continue
        pl = operand_place(t[1])
        out.append((bb, {val: tgt for val, tgt in t[3]}, t[4], pl[0] if pl else None))
    return out


def push_tags(f, m, const_prefix=None):
    """calls Vec::push(const) / SmallVec::push(const) / extend with a single named constant: (call, const_name, value)"""
    out = []
    for c in f.calls:
        if not (c.name.endswith("Vec::<T, A>::push") or c.name.endswith("SmallVec::<A>::push")):
            continue
        if len(c.args) < 2:
            continue
        a = c.args[1]
        if a[0] != "k":
            # pushed value may be a local holding a named constant
            pl = operand_place(a)
            if pl is None or pl[1]:
                continue
            ds = f.defs().get(pl[0], [])
            if len(ds) != 1 or ds[0][0] != "stmt" or ds[0][3][0] != "use" or ds[0][3][1][0] != "k":
                continue
            a = ds[0][3][1]
        name = a[5]
        if a[4] is None:
            continue
        if const_prefix and not (name or "").startswith(const_prefix):
            continue
        out.append((c, name, a[4]))
    return out


def region_events(f, blocks):
    """ordered events inside a set of blocks"""
    ev = []
    bset = set(blocks)
    for c in sorted([c for c in f.calls if c.bb in bset], key=lambda c: (c.line, c.bb)):
        ic = int_conv(c)
        loop = in_loop(f, c.bb)
        if ic:
            ev.append({"k": ic[0], "ty": ic[1], "w": ic[2], "endian": ic[3], "loop": loop, "bb": c.bb, "line": c.line})
            continue
        n = c.name
        if n.endswith("extend_from_slice") or n.endswith("copy_from_slice"):
            a = c.args[1] if len(c.args) > 1 else None
            pl = operand_place(a) if a else None
            src = None
            aty = ""
            if pl is not None and not pl[1]:
                aty = f.locals[pl[0]]
                k2, p2, _ = f.origin(pl[0])
                if k2 == "call" and p2 is not None:
                    src = p2
            if src is not None and int_conv(src):
                continue  # bytes of an integer conversion already recorded
            al = array_len(aty)
            if al is None and pl is not None and not pl[1]:
                al = array_len_of_local(f, pl[0])
            ev.append({"k": "bytes", "w": al, "loop": loop, "bb": c.bb, "line": c.line, "ty": aty})
    for bb in sorted(bset):
        for s in f.blocks[bb]["s"]:
            if s[0] == "=" and s[2][0] == "agg" and s[2][1] == "adt":
                ev.append({"k": "mk", "adt": s[2][2], "variant": s[2][3], "bb": bb, "line": s[3], "loop": in_loop(f, bb)})
    return ev


def advances(f, blocks, local_or_field_pred):
    """constant increments `x += k` of a cursor inside blocks: list of (k, in_loop, bb)"""
    out = []
    for bb in blocks:
        for s in f.blocks[bb]["s"]:
            if s[0] != "=" or s[2][0] != "bin" or not s[2][1].startswith("Add"):
                continue
            a, b = s[2][2], s[2][3]
            kb = const_value(f, b)
            ka = const_value(f, a)
            if (ka is None) == (kb is None):
                continue
            v = a if kb is not None else b
            k = kb if kb is not None else ka
            pl = operand_place(v)
            if pl is None or not local_or_field_pred(f, pl):
                continue
            out.append((k, in_loop(f, bb), bb))
    return out


def fixed_total(events, kinds=("w", "bytes")):
    """(sum of fixed widths outside loops, has_variable_part, per-iteration widths inside loops)"""
    tot = 0
    var = False
    loopw = []
    for e in events:
        if e["k"] not in kinds:
            continue
        if e.get("w") is None:
            var = True
            continue
        if e["loop"]:
            loopw.append(e["w"])
        else:
            tot += e["w"]
    return tot, var, loopw


def is_push(c):
    n = c.name
    return (n.endswith("Vec::<T, A>::push") or n.endswith("SmallVec::<A>::push") or n.endswith("KeyBuffer::push")
            or n.endswith("KeyBuffer>::push") or n.endswith("collections::Vec::<'bump, T>::push") or n.endswith("::push"))


def const_desc(op):
    if op is None or op[0] != "k":
        return None
    if op[4] is not None:
        return op[4]
    return op[5] or op[1]


def emission_signature(f, with_conds=True):
    """ordered (by source line) list of emission-relevant events of an encoder: branch predicates, tag pushes, integer
    conversions, bit transforms with constant operands.  Two sibling encoders of one format must have equal signatures."""
    ev = []
    for bb, b in enumerate(f.blocks):
        for s in b["s"]:
            if s[0] != "=":
                continue
            rv = s[2]
            if rv[0] == "bin" and rv[1] in ("BitXor", "BitAnd", "BitOr", "Shl", "Shr"):
                k = const_desc(rv[3]) if rv[3][0] == "k" else const_desc(rv[2]) if rv[2][0] == "k" else None
                if k is None:
                    k = const_value(f, rv[3])
                ev.append((s[3], bb, ("bit", rv[1], k)))
            elif rv[0] == "un" and rv[1] == "Not" and "bool" != f.locals[s[1][0]]:
                ev.append((s[3], bb, ("bit", "Not", None)))
        t = b["t"]
        if t[0] == "switch" and t[2] == "bool" and with_conds:
            pl = operand_place(t[1])
            if pl is not None and not pl[1]:
                k, p, neg = f.origin(pl[0])
                if k == "rvalue" and p[0] == "bin":
                    c2 = const_desc(p[3]) if p[3][0] == "k" else const_desc(p[2]) if p[2][0] == "k" else None
                    ev.append((b.get("l"), bb, ("cond", p[1], c2)))
                elif k == "call" and p is not None and not p.name.endswith("Iterator>::next"):
                    ev.append((b.get("l"), bb, ("cond", p.name.rsplit("::", 1)[-1], None)))
        elif t[0] == "switch" and t[2] not in ("bool", "isize") and with_conds:
            ev.append((b.get("l"), bb, ("match", tuple(sorted(v for v, _ in t[3])))))
    for c in f.calls:
        ic = int_conv(c)
        if ic:
            ev.append((c.line, c.bb, ("conv", ic[0], ic[1], ic[3])))
        elif is_push(c) and len(c.args) > 1:
            a = c.args[1]
            if a[0] != "k":
                pl = operand_place(a)
                ds = f.defs().get(pl[0], []) if pl and not pl[1] else []
                if len(ds) == 1 and ds[0][0] == "stmt" and ds[0][3][0] == "use" and ds[0][3][1][0] == "k":
                    a = ds[0][3][1]
            if a[0] == "k" and a[4] is not None:
                ev.append((c.line, c.bb, ("push", a[5].rsplit("::", 1)[-1] if a[5] else None, a[4])))
            else:
                ev.append((c.line, c.bb, ("push", "<var>", None)))
    ev.sort(key=lambda x: (x[0], x[1]))
    return [e[2] for e in ev]
