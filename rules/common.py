"""Repository-specific vocabulary shared by the property rule tables: sinks, roots, assumptions,
statement dispatch discovery, ERR-DROP, effect matrices."""
import re
from model import CheckError, place_fields, operand_place
from paths import (source_call, cmp_of_call, call_named, atomic_load_of, Assume, must_pass, order_after, must_reach_closure, assumed_cuts,
                   success_escapes, describe_path, arg_origin, origin_fields)


def short(s, n=90):
    s = re.sub(r"std::result::Result|eyre::Report", lambda m_: m_.group(0).split("::")[-1], s)
    return s if len(s) <= n else s[: n - 3] + "..."


# ---------------- sinks ----------------
def is_file_sync(c):
    n = c.name
    return n.endswith("fs::File::sync_data") or n.endswith("fs::File::sync_all")


def is_msync(c):
    n = c.name
    return n.endswith("MmapMut::flush") or n.endswith("MmapMut::flush_range") or n.endswith("MmapMut::flush_async")


def is_durability_sink(c):
    n = c.name
    return (is_file_sync(c) or is_msync(c) or n.endswith("io::Write>::write_all") or n.endswith("fs::File::set_len")
            or n.endswith("fs::remove_file") or n.endswith("fs::rename") or n.endswith("io::Write>::flush")
            or n.endswith("fs::File::create") or n.endswith("fs::remove_dir_all") or n.endswith("fs::write"))


BTREE_MUTATORS = ("insert", "insert_append", "insert_if_not_exists", "update", "delete", "upsert", "insert_with_hint",
                  "insert_append_with_hint", "append", "delete_range", "clear")


def btree_call_parts(c):
    """('WalStoragePerTable'|'MmapStorage'|..., method) for calls to btree::tree::BTree::<.., S>::method"""
    n = c.name
    if "btree::tree::BTree::<" not in n and "btree::BTree::<" not in n:
        return None
    meth = n.rsplit("::", 1)[-1]
    full = c.full
    mm = re.search(r"BTree::<'_, ([^>]*?(?:<[^>]*>)?)>::", full)
    st = mm.group(1) if mm else "?"
    return (st, meth)


def is_btree_mutation(c):
    p = btree_call_parts(c)
    return bool(p) and p[1] in BTREE_MUTATORS


def is_wrapped_btree_mutation(c):
    p = btree_call_parts(c)
    return bool(p) and p[1] in BTREE_MUTATORS and "WalStoragePerTable" in p[0]


def is_raw_btree_mutation(c):
    p = btree_call_parts(c)
    return bool(p) and p[1] in BTREE_MUTATORS and "MmapStorage" in p[0]


# ---------------- assumptions ----------------
def durability_assumptions():
    return [
        call_named("SyncMode::should_sync", True, desc="synchronous=FULL: should_sync()==true"),
        call_named(["SmallVec::<A>::is_empty", "Vec::<T, A>::is_empty", "<impl [T]>::is_empty"], False,
                   desc="there is something to log: is_empty()==false"),
        atomic_load_of("wal_enabled", True),
        call_named(["storage::wal::SyncMode as std::cmp::PartialEq>::ne"], False, desc="sync_mode != Full is false"),
        call_named(["storage::wal::SyncMode as std::cmp::PartialEq>::eq"], True, desc="sync_mode == Full"),
    ]


def autocommit_assumptions():
    return [
        call_named(["Option::<T>::is_some"], False, desc="autocommit: active_txn.is_some()==false", recv_field="active_txn"),
        call_named(["Option::<T>::is_none"], True, desc="autocommit: active_txn.is_none()==true", recv_field="active_txn"),
        call_named(["ShardedDirtyTracker::has_dirty_pages"], True, desc="the statement dirtied pages"),
        atomic_load_of("wal_autoflush", True),
    ]


def ddl_assumptions():
    return []


# ---------------- roots ----------------
def is_database_api(f):
    return f.vis == "pub" and f.kind == "assoc" and f.self_ty in ("database::database::Database",)


def is_durability_root(f):
    i = f.id
    if f.kind == "closure":
        return False
    tail = i.rsplit("::", 1)[-1]
    if f.self_ty in ("database::database::Database", "database::database::SharedDatabase"):
        if tail in ("execute_commit", "flush_wal_if_autocommit", "checkpoint", "checkpoint_wal", "checkpoint_wal_with_stats",
                    "close", "save_catalog", "save_meta", "ensure_wal", "recover_all_tables", "streaming_recovery",
                    "replay_schema_tables_from_segments"):
            return True
        if f.trait.endswith("ops::Drop"):
            return True
    return False


def is_sql_entry(k):
    """re-entrant SQL entry points: traversal stops here (their bodies belong to other slices)"""
    t = k.rsplit("::", 1)[-1]
    return ("Database>::" in k or "Database::" in k) and t in ("execute", "query", "execute_with_params", "execute_statement",
                                                              "query_with_columns", "execute_with_cached_plan", "prepare")


def is_catalog_mutation(c):
    """call of a schema::* method through `&mut self` (Catalog / Schema / TableDef mutators)"""
    if not c.name.startswith("schema::"):
        return False
    tail = c.name.rsplit("::", 1)[-1]
    if tail.startswith("get_") or tail.endswith("_mut") or tail in ("resolve_table", "find_index"):
        return False  # accessors handing out a reference; the mutation is the call made through it
    if not c.args:
        return False
    pl = operand_place(c.args[0])
    if pl is None:
        return False
    ty = c.fn.locals[pl[0]] if not pl[1] else ""
    return ty.startswith("&mut schema::catalog::Catalog") or ty.startswith("&mut schema::catalog::Schema") or ty.startswith("&mut schema::table::TableDef")


def slice_between(m, roots, sink_pred, stop=lambda k: False):
    """functions reachable from roots that may themselves reach a sink"""
    fwd = m.reach_from(roots, stop)
    can = set()
    callers = m.callers()
    st = []
    for k in fwd:
        if any(sink_pred(c) for c in m.fns[k].calls):
            can.add(k)
            st.append(k)
    while st:
        k = st.pop()
        for p in callers.get(k, ()):
            if p in fwd and p not in can:
                can.add(p)
                st.append(p)
    return can


# ---------------- ERR-DROP ----------------
HARD_DISCARDS = ("let_wild", "semi_ok", "semi_err", "semi_is_ok", "semi_is_err", "semi_unwrap_or_default", "iflet_ok_noelse",
                 "match_err_wild", "semi_result")

# (function-id suffix, discarded callee suffix) -> reason.   Frozen by reading; see DESIGN §4/§6.
C01_ERRDROP_EXCEPTIONS = {
    # Drop impls cannot return an error; what matters there is ordering (rule R6), not propagation
    ("SharedDatabase as std::ops::Drop>::drop", "*"): "Drop cannot propagate; ordering is decided by R6",
    ("persist_memory_stats", "*"): "statistics side table, not user data",
    ("persist_wal_stats", "*"): "statistics side table, not user data",
    ("checkpoint_wal_with_stats", "*"): "statistics side table, not user data",
    ("execute_drop_table", "FileManager::drop_table"): "file removal after the catalog entry is gone; an orphan file loses no acknowledged write",
    ("lifecycle::<impl database::database::Database>::close", "checkpoint"): "best-effort checkpoint on close: on failure the WAL is kept and replayed at open",
    ("maybe_auto_checkpoint", "SharedDatabase::checkpoint"): "best-effort auto-checkpoint: on failure the WAL is kept",
    ("sync_dirty_storages", "MmapStorage::sync"): "msync after the WAL was already fsynced: the log still covers the pages",
    ("sync_dirty_storages", "FileManager::table_data"): "msync after the WAL was already fsynced: the log still covers the pages",
    ("Wal::cleanup_old_segments", "*"): "best-effort removal of already checkpointed segments",
    # candidates read as genuine but only reachable with an I/O fault (file cannot be opened / page beyond EOF);
    # not demonstrated against the real code, therefore tolerated-today and NOT listed as findings (DESIGN §6)
    ("collect_pages_for_table", "MmapStorage::page"): "fault-only candidate: page silently missing from the commit payload",
    ("execute_small_commit", "collect_pages_for_table"): "fault-only candidate: table file unopenable => pages dropped from the commit",
    ("lifecycle::<impl database::database::Database>::checkpoint", "FileManager::table_data"): "fault-only candidate: table skipped by checkpoint",
    ("recover_all_tables", "MmapStorage::page_mut"): "fault-only candidate: frame skipped when page_mut fails after grow",
    ("undo_write_entry", "*"): "rollback path: C07 decides dropped undo errors",
    ("abort_active_transaction", "undo_write_entries"): "rollback-on-drop error has no caller to report to (C07 decides undo errors)",
}


def callee_may_reach(m, name, sink_pred, cache={}):
    key = (id(m), name, sink_pred)
    if key in cache:
        return cache[key]
    res = False
    if name in m.fns:
        res = bool(m.may_reach_callee([name], sink_pred))
    else:
        # trait method: any impl
        for k in m.trait_impls().get(name, []):
            if m.may_reach_callee([k], sink_pred):
                res = True
                break
    cache[key] = res
    return res


def err_drop(ctx, rule, fn_keys, sink_pred, exceptions, kinds=HARD_DISCARDS, relevant=None):
    """one obligation per (function, discarded callee): the Result of a call that may reach a sink must not be discarded"""
    m = ctx.m
    n = 0
    groups = {}
    for k in sorted(fn_keys):
        f = m.fns[k]
        fs = [f] + list(all_closures(m, f))
        for g in fs:
            for d in g.discards:
                if d["kind"] not in kinds:
                    continue
                cal = d["callee"]
                if relevant is not None:
                    if not relevant(g, d):
                        continue
                elif cal and not (callee_may_reach(m, cal, sink_pred) or sink_like_name(cal)):
                    continue
                n += 1
                groups.setdefault((f.id, cal or "<expr>", d["kind"]), []).append(d)
    for (fid, cal, kind), ds in sorted(groups.items()):
        reason = None
        for (fs_, cs_), r in exceptions.items():
            if fid.endswith(fs_) and (cal.endswith(cs_) or cs_ == "*"):
                reason = r
        loc = "%s:%s" % (ds[0]["file"], ds[0]["line"])
        key = "%s:%s:%s" % (fid, short(cal, 70), kind)
        if reason:
            ctx.ob(rule, key, True, "tolerated discard (%s)" % reason, loc)
        else:
            ctx.ob(rule, key, False, "Result of %s is discarded (%s, %d site(s))" % (cal, kind, len(ds)), loc)
    return n


def sink_like_name(cal):
    return any(cal.endswith(s) for s in ("File::sync_all", "File::sync_data", "MmapMut::flush", "fs::remove_file", "fs::rename",
                                          "File::set_len", "Write::write_all", "Write::flush", "Storage::sync", "Storage::page",
                                          "Storage::page_mut", "Storage::grow"))


def all_closures(m, f):
    out = []
    for g in m.closures_of(f):
        out.append(g)
        out += all_closures(m, g)
    return out


# ---------------- statement dispatch ----------------
def execute_statement_fn(m):
    c = [f for f in m.fns.values() if f.id.endswith("Database>::execute_statement") or f.id.endswith("Database::execute_statement")]
    if len(c) != 1:
        raise CheckError("anchor execute_statement: %d candidates" % len(c))
    return c[0]


def stmt_arms(m):
    """variant name -> list of local callee Fn reached in the arm's dominated region of the Statement dispatch"""
    f = execute_statement_fn(m)
    adt = m.adts.get("sql::ast::Statement")
    if not adt:
        raise CheckError("adt sql::ast::Statement missing")
    names = {int(v["discr"]): v["name"] for v in adt["variants"]}
    best = None
    for bb, b in enumerate(f.blocks):
        t = b["t"]
        if t[0] != "switch" or t[2] == "bool":
            continue
        pl = operand_place(t[1])
        if pl is None or pl[1]:
            continue
        ds = f.defs().get(pl[0], [])
        if len(ds) != 1 or ds[0][0] != "stmt" or ds[0][3][0] != "disc":
            continue
        dp = ds[0][3][1]
        ty = f.locals[dp[0]]
        if "sql::ast::Statement" in ty and len(t[3]) >= 8:
            best = (bb, t)
            break
    if not best:
        raise CheckError("Statement dispatch switch not found in execute_statement")
    bb, t = best
    arms = {}
    for val, tgt in t[3]:
        nm = names.get(val, str(val))
        region = [b2 for b2 in f.reachable([tgt]) if f.dominates(tgt, b2)]
        cs = []
        for c in f.calls:
            if c.bb in region and c.name in m.fns and m.fns[c.name].self_ty.endswith("Database"):
                cs.append(m.fns[c.name])
        arms[nm] = cs
    return arms


def stmt_handler(m, tail):
    c = [f for f in m.fns.values() if f.kind != "closure" and f.id.rsplit("::", 1)[-1] == tail and f.self_ty.endswith("database::Database")]
    if len(c) != 1:
        raise CheckError("anchor %s: %d candidates" % (tail, len(c)))
    return c[0]


DDL_VARIANTS = ("CreateTable", "CreateSchema", "CreateIndex", "Drop", "AlterTable")


def ddl_handlers(m):
    arms = stmt_arms(m)
    out = {}
    for v in DDL_VARIANTS:
        for f in arms.get(v, []):
            t = f.id.rsplit("::", 1)[-1]
            if t in ("check_writable",):
                continue
            out[v + ":" + t] = f
    return out


# ---------------- WAL truncate discipline ----------------
def truncate_after_sync(ctx, rule, exceptions=None):
    """every call that destroys log contents (Wal::truncate, Wal::remove_closed_segments) outside storage::wal must be
    preceded by a storage sync: some sync site S (a call that must-reach msync, assuming replayed frames > 0) either
    dominates the destroying call, or sits in a loop whose header dominates the destroying call which lies after the loop
    (the repo's `for id in modified { storage.sync()? }` idiom; zero iterations = nothing was modified)."""
    m = ctx.m
    exceptions = exceptions or {}
    destroys = lambda c: (c.name.endswith("storage::wal::Wal::truncate") or c.name.endswith("storage::wal::Wal::remove_closed_segments"))
    base = lambda c: (is_msync(c) or c.name.endswith("storage::Storage::sync") or c.name.endswith("Storage>::sync")
                      or c.name.endswith("MmapStorage::sync"))
    A = [cmp_of_call("Gt", ["Wal::replay_segments_to_storage", "Wal::recover", "Wal::recover_for_file"], 0, True,
                     desc="replayed frames > 0")]
    SYNCERS = must_reach_closure(m, base, A)
    # replay-and-sync functions: every replay call inside is followed by a sync when frames > 0
    replay = lambda c: c.name.endswith("Wal::replay_segments_to_storage")
    for g in m.fns.values():
        rs, _ = order_after(g, replay, lambda c: base(c) or c.name in SYNCERS, A)
        if rs and all(okk for _, okk, _ in rs):
            SYNCERS.add(g.key)
    syncs = lambda c: base(c) or c.name in SYNCERS

    def ok_edge_dominates(f, s_, tbb):
        """the destroying block is reachable only through the success arm of the sync call's Result"""
        if "result::Result<" not in f.locals[s_.dest[0]]:
            return True
        for bb in range(len(f.blocks)):
            t = f.blocks[bb]["t"]
            if t[0] != "switch" or t[2] == "bool":
                continue
            pl = operand_place(t[1])
            if pl is None or pl[1]:
                continue
            ds = f.defs().get(pl[0], [])
            if len(ds) != 1 or ds[0][0] != "stmt" or ds[0][3][0] != "disc":
                continue
            src = source_call(f, ds[0][3][1][0])
            if src is None or src.bb != s_.bb:
                continue
            fails = [tgt for val, tgt in t[3] if val != 0]
            if tbb not in f.reachable(fails):
                return True
        return False

    sites = 0
    for f in sorted(m.fns.values(), key=lambda f: f.id):
        if f.id.startswith("storage::wal::"):
            continue
        ds = [c for c in f.calls if destroys(c)]
        for c in ds:
            sites += 1
            ok = False
            why = ""
            unchecked = None
            for s_ in f.calls:
                if not syncs(s_):
                    continue
                hit = False
                if f.dominates(s_.bb, c.bb):
                    hit = True
                    why = "dominated by %s" % "::".join(s_.name.rsplit("::", 2)[-2:])
                else:
                    for h, body in f.loops():
                        if s_.bb in body and c.bb not in body and f.dominates(h, c.bb):
                            hit = True
                            why = "after sync loop at line %s" % f.blocks[h].get("l")
                            break
                if hit:
                    if ok_edge_dominates(f, s_, c.bb):
                        ok = True
                        break
                    unchecked = s_
            key = "%s:%s" % (f.id, c.name.rsplit("::", 1)[-1])
            reason = None
            for k_, r in exceptions.items():
                if key.endswith(k_):
                    reason = r
            if not ok and reason:
                ctx.ob(rule, key, True, "tolerated (%s)" % reason, c.loc())
            else:
                ctx.ob(rule, key, ok, ("log destroyed only after a successful storage sync (%s)" % why) if ok else
                       ("%s runs even when the preceding %s failed (its Result is not consulted): the only durable copy of the "
                        "frames is deleted" % (c.name, unchecked.name)) if unchecked is not None else
                       "%s is reachable with no storage sync (msync) dominating it: log frames are discarded while the table "
                       "pages they cover were never flushed" % c.name, c.loc())
    ctx.floor(rule + ".sites", sites, 4)


def closure_arg_is(m, root, c, closure_fn):
    """call `c` in `root` invokes closure_fn directly or receives it as an argument"""
    if c.name == closure_fn.key or c.name == closure_fn.id:
        return True
    for i, a in enumerate(c.args):
        pl = operand_place(a)
        if pl is None or pl[1]:
            continue
        k, p, _ = root.origin(pl[0])
        if k == "rvalue" and p and p[0] == "agg" and p[1] == "closure" and p[2] == closure_fn.id:
            return True
    return False


def drained_logged(ctx, rule):
    """pages taken out of the dirty tracker are logged completely: no lossy iteration adaptor over the drained set"""
    m = ctx.m
    LOSSY = ("chunks_exact", "rchunks_exact", "array_chunks", "step_by")
    n2 = 0
    for f in sorted(m.fns.values(), key=lambda f: f.id):
        if not any(c.name.endswith("ShardedDirtyTracker::drain_for_table") or c.name.endswith("ShardedDirtyTracker::drain_all") for c in f.calls):
            continue
        n2 += 1
        group = [f] + list(all_closures(m, f))
        lossy = [c for g in group for c in g.calls if c.name.rsplit("::", 1)[-1] in LOSSY]
        rem = [c for g in group for c in g.calls if c.name.endswith("::remainder") or c.name.endswith("into_remainder")]
        ok = not lossy or bool(rem)
        ctx.ob(rule, f.id.rsplit("::", 1)[-1], ok, "drained pages are iterated completely" if ok else
               "the drained dirty-page set is walked with %s and its remainder is never consumed: the trailing pages are removed from the "
               "tracker but not logged" % lossy[0].name.rsplit("::", 1)[-1], (lossy or [f.calls[0]])[0].loc())
    ctx.floor(rule + ".drain_sites", n2, 3)


def unwrapped_mutations(ctx, rule):
    """Under the precondition `WAL enabled` (branch edges of `wal_enabled.load()` pruned), every B-tree mutation reachable in a SQL
    DML entry point (and the closures it builds on feasible branches) must go through the dirty-tracking wrapper
    (BTree over WalStoragePerTable). One obligation per raw site, keyed entry:method#ordinal (ordinal among the raw sites of that
    method in that entry, in source order) so that a newly added raw site always yields a new key."""
    import dmlrules
    from paths import assumed_cuts, atomic_load_of
    m = ctx.m
    WAL_ON = [atomic_load_of("wal_enabled", True)]
    total_wrapped = 0
    for e in ("insert", "update", "update_from", "delete"):
        f = m.fn(dmlrules.ENTRIES[e])
        cuts, applied = assumed_cuts(f, WAL_ON)
        reach = f.reachable([0], cut_edges=cuts)
        group = [(f, None)]
        for g in all_closures(m, f):
            built = [bb for bb, b in enumerate(f.blocks) for st in b["s"]
                     if st[0] == "=" and st[2][0] == "agg" and st[2][1] == "closure" and st[2][2] == g.id]
            group.append((g, built))
        raw, wrapped = [], 0
        for g, built in group:
            if built is not None and built and not any(bb in reach for bb in built):
                continue  # closure only constructed on the WAL-off branch
            for c in g.calls:
                if not (c.name.startswith("btree::tree::BTree::") and c.name.rsplit("::", 1)[-1] in ("insert", "delete", "update", "insert_append")):
                    continue
                if built is None and c.bb not in reach:
                    continue
                if "WalStoragePerTable" in c.full.split(">::")[0]:
                    wrapped += 1
                else:
                    raw.append(c)
        total_wrapped += wrapped
        ctx.stat("%s.%s.wal_branches" % (rule, e), len(applied))
        ctx.stat("%s.%s.wrapped" % (rule, e), wrapped)
        ok_entry = wrapped > 0 and len(applied) > 0
        ctx.ob(rule + ".WRAPPED-PATH", e, ok_entry, "%d wrapped mutation site(s) on %d WAL branch(es)" % (wrapped, len(applied)) if ok_entry else
               "%s has no B-tree mutation through the dirty-tracking wrapper on its WAL branch: nothing it writes is logged" % e, f.loc())
        ordn = {}
        for c in sorted(raw, key=lambda c: (c.line, c.bb)):
            meth = c.name.rsplit("::", 1)[-1]
            k = ordn.get(meth, 0)
            ordn[meth] = k + 1
            ctx.ob(rule, "%s:%s#%d" % (e, meth, k), False,
                   "BTree::%s reachable with WAL enabled writes the mmap directly (storage not wrapped in WalStoragePerTable): the page is neither "
                   "dirty-tracked nor logged, so a committed change to it is absent from the log" % meth, c.loc())
    ctx.floor(rule + ".wrapped_sites", total_wrapped, 10)


def checkpoint_after_flush(ctx, rule):
    """execute_commit ends with maybe_auto_checkpoint, which copies WAL frame images back over the table files.  That is only sound
    when every page dirtied since the last flush has been logged first: with WAL enabled and a non-empty dirty set (the tracker is
    shared by all handles — its contents do not depend on what *this* transaction wrote), every path to the checkpoint call passes
    one of the commit logging routines."""
    from paths import Assume, atomic_load_of, assumed_cuts, source_call
    m = ctx.m
    f = stmt_handler(m, "execute_commit")

    def dirty_ids_empty(fn, kind, payload):
        if kind != "call" or payload is None or not payload.name.endswith("::is_empty") or not payload.args:
            return False
        pl = operand_place(payload.args[0])
        src = source_call(fn, pl[0]) if pl is not None and not pl[1] else None
        hops = 0
        while src is not None and hops < 4 and (src.name.endswith("::deref") or src.name.endswith("::as_slice") or src.name.endswith("::as_ref")):
            p0 = operand_place(src.args[0])
            src = source_call(fn, p0[0]) if p0 and not p0[1] else None
            hops += 1
        return src is not None and src.name.endswith("ShardedDirtyTracker::all_dirty_table_ids")
    A = [atomic_load_of("wal_enabled", True), Assume("the shared dirty set is not empty", dirty_ids_empty, False)]
    cuts, applied = assumed_cuts(f, A)
    cps = [c for c in f.calls if c.name.endswith("::maybe_auto_checkpoint")]
    logs = [c for c in f.calls if c.name.endswith("::execute_small_commit") or c.name.endswith("::execute_chunked_wal_commit")]
    if not cps or not logs:
        raise CheckError("execute_commit: %d checkpoint call(s), %d logging call(s)" % (len(cps), len(logs)))
    ok = len(applied) >= 2
    why = ("the test that gates the logging of dirty pages is not an emptiness test of ShardedDirtyTracker::all_dirty_table_ids() alone "
           "(it depends on something else, e.g. on what this transaction wrote): pages dirtied through other paths or handles are not "
           "logged before the auto-checkpoint copies older frame images over them")
    if ok:
        reach = f.reachable([0], cut_edges=cuts | {(b, s) for c in logs for b in [c.bb] for s in f.succ(b, unwind=False)})
        hit = [c for c in cps if c.bb in reach]
        ok = not hit
        why = "the auto-checkpoint is reached only after the dirty pages were logged" if ok else \
              "with WAL enabled and dirty pages in the shared tracker, COMMIT can reach maybe_auto_checkpoint without logging them first: the " \
              "checkpoint copies older frame images over the newer unlogged pages"
    ctx.ob(rule, "execute_commit", ok, why, (cps[0] if cps else f).loc() if cps else f.loc())
