"""Rules over schema::persistence (catalog file) shared by C21 and C40, and the same-typed-argument-order rule."""
import re
from model import CheckError, operand_place, place_fields
from paths import (order_after, must_pass, success_escapes, describe_path, call_named, assumed_cuts, is_method, source_call,
                   from_field)
import codec

CP = "schema::persistence::CatalogPersistence::"


def param_origin(f, op):
    """index of the parameter an operand's value comes from (through copies/refs/as_ref/deref/clone/to_path_buf...), or None"""
    pl = operand_place(op)
    seen = 0
    while pl is not None and seen < 10:
        seen += 1
        if pl[1] and pl[1] != ["*"]:
            return None
        l = pl[0]
        if 1 <= l <= f.nargs and not f.defs().get(l):
            return l
        ds = f.defs().get(l, [])
        if len(ds) != 1:
            return None
        d = ds[0]
        if d[0] == "call":
            c = d[2]
            if c is None or not c.args:
                return None
            if not any(c.name.endswith(x) for x in ("::as_ref", "::deref", "::borrow", "::as_path", "::as_os_str", "convert::AsRef<T>>::as_ref")):
                return None
            pl = operand_place(c.args[0])
            continue
        rv = d[3]
        if rv[0] == "use":
            pl = operand_place(rv[1])
        elif rv[0] in ("ref", "ptr"):
            pl = rv[2]
        elif rv[0] == "cast":
            pl = operand_place(rv[2])
        else:
            return None
    return None


def atomic_replace(ctx, rule):
    m = ctx.m
    f = m.fn(CP + "save")
    creates = [c for c in f.calls if c.name.endswith("fs::File::create") or c.name.endswith("fs::OpenOptions::open")]
    renames = [c for c in f.calls if c.name.endswith("fs::rename")]
    # which parameter is the live path: the one of type &Path
    live = [i for i in range(1, f.nargs + 1) if "path::Path" in f.locals[i]]
    if len(live) != 1:
        raise CheckError("save: cannot identify the live path parameter")
    live = live[0]
    inplace = [c for c in creates if param_origin(f, c.args[0] if c.name.endswith("File::create") else c.args[1]) == live]
    ctx.ob(rule + ".NO-INPLACE-TRUNCATE", f.id, bool(creates) and not inplace,
           "the file opened for writing is not the live catalog path" if creates and not inplace else
           "the live catalog is opened with truncation and rewritten in place: a crash before the fsync loses every table",
           (inplace or creates or [None])[0].loc() if (inplace or creates) else f.loc())
    # the replacement file must start empty: File::create truncates; an OpenOptions chain has to ask for it (truncate(true) or
    # create_new(true)).  A leftover temp file from an interrupted save is otherwise only partly overwritten and its stale tail is
    # renamed into place with the new head.
    oo = [c for c in creates if c.name.endswith("fs::OpenOptions::open")]
    if oo:
        trunc = [c for c in f.calls if c.name.endswith("fs::OpenOptions::truncate") or c.name.endswith("fs::OpenOptions::create_new")]
        okt = bool(trunc) and all(const_true(f, c) for c in trunc)
        ctx.ob(rule + ".TMP-STARTS-EMPTY", f.id, okt, "the replacement file is opened with truncate(true)/create_new(true)" if okt else
               "the replacement file is opened with OpenOptions without truncation: bytes of an earlier, longer temp file survive behind the new "
               "catalog and are renamed into place", oo[0].loc())
    else:
        ctx.ob(rule + ".TMP-STARTS-EMPTY", f.id, bool(creates), "the replacement file is created with File::create (truncating)", f.loc())
    ok_r = bool(renames) and all(param_origin(f, c.args[1]) == live for c in renames)
    ctx.ob(rule + ".RENAME-INTO-PLACE", f.id, ok_r, "the new file is renamed onto the live path" if ok_r else
           "no fs::rename onto the live catalog path", f.loc())
    is_sync = lambda c: c.name.endswith("fs::File::sync_all") or c.name.endswith("fs::File::sync_data")
    is_write = lambda c: is_method(c, "io::Write", "write_all") or is_method(c, "io::Write", "write")
    res, _ = order_after(f, is_write, is_sync, [])
    ctx.floor(rule + ".write_sites", len(res), 2)
    bad = [(c, e) for c, ok, e in res if not ok]
    ctx.ob(rule + ".SYNC-AFTER-WRITE", f.id, not bad, "%d write(s) all followed by sync_all" % len(res) if not bad else
           "catalog bytes written but not synced before Ok", bad[0][0].loc() if bad else f.loc())
    if renames:
        # sync must precede the rename on every path reaching it
        for c in renames:
            syncs = [x for x in f.calls if is_sync(x)]
            ok = any(f.dominates(x.bb, c.bb) for x in syncs)
            ctx.ob(rule + ".SYNC-BEFORE-RENAME", f.id, ok, "rename is dominated by the file sync" if ok else
                   "the new catalog is renamed into place before its contents are synced", c.loc())
    # buffered writers must be flushed before the sync
    bw = [c for c in f.calls if is_write(c) and "BufWriter" in c.full]
    fl = lambda c: (is_method(c, "io::Write", "flush") and "BufWriter" in c.full) or c.name.endswith("BufWriter::<W>::into_inner")
    if bw:
        res2, _ = order_after(f, lambda c: c in bw, fl, [])
        bad2 = [(c, e) for c, ok, e in res2 if not ok]
        okb = not bad2
        if okb:
            for s_ in [x for x in f.calls if is_sync(x)]:
                okb = okb and any(f.dominates(x.bb, s_.bb) for x in f.calls if fl(x))
        ctx.ob(rule + ".FLUSH-BEFORE-SYNC", f.id, okb, "buffered catalog bytes are flushed before the sync" if okb else
               "bytes are written through a BufWriter that is not flushed before sync_all: the fsync covers an empty file and the "
               "data reaches the file only when the writer is dropped", bw[0].loc())
    else:
        ctx.ob(rule + ".FLUSH-BEFORE-SYNC", f.id, True, "writes go to the File directly (no user-space buffer)", f.loc())


def meta_sync(ctx, rule):
    m = ctx.m
    cands = [f for f in m.fns.values() if f.id.endswith("Database::save_meta") and f.kind != "closure"]
    if len(cands) != 1:
        raise CheckError("save_meta anchor: %d" % len(cands))
    f = cands[0]
    is_sync = lambda c: c.name.endswith("fs::File::sync_all") or c.name.endswith("fs::File::sync_data")
    res, _ = order_after(f, lambda c: is_method(c, "io::Write", "write_all"), is_sync, [])
    ctx.floor(rule + ".write_sites", len(res), 1)
    bad = [c for c, ok, e in res if not ok]
    ctx.ob(rule, f.id, not bad, "meta page write followed by sync_all" if not bad else "meta page written but not synced", f.loc())


def width_tables(ctx, rule):
    """per serialize_X / deserialize_X pair: multiset of integer widths written == multiset read; same byte order"""
    m = ctx.m
    pairs = [("serialize_table", "deserialize_table"), ("serialize_column", "deserialize_column"),
             ("serialize_constraint", "deserialize_constraint"), ("serialize_index", "deserialize_index"),
             ("serialize", "deserialize_schema")]
    n = 0
    for w, r in pairs:
        wf, rf = m.fn(CP + w), m.fn(CP + r)
        wev = [codec.int_conv(c) for c in wf.calls]
        rev = [codec.int_conv(c) for c in rf.calls]
        ww = sorted(e[2] for e in wev if e and e[0] == "w")
        rw = sorted(e[2] for e in rev if e and e[0] == "r")
        we = {e[3] for e in wev if e and e[0] == "w"}
        re_ = {e[3] for e in rev if e and e[0] == "r"}
        n += len(ww)
        ctx.ob(rule + ".WIDTHS", "%s/%s" % (w, r), ww == rw, "integer fields written %s == read %s" % (ww, rw) if ww == rw else
               "writer emits integer widths %s but the reader consumes %s" % (ww, rw), wf.loc())
        ctx.ob(rule + ".ENDIAN", "%s/%s" % (w, r), we == re_ or not we or not re_, "byte order %s" % sorted(we | re_) if we == re_ else
               "writer %s vs reader %s" % (sorted(we), sorted(re_)), wf.loc())
    ctx.floor(rule + ".int_fields", n, 15)


def tag_tables(ctx, rule):
    m = ctx.m
    # DataType byte table: reader arm value == discriminant of the variant it constructs; every variant has an arm
    f = m.fn(CP + "deserialize_data_type")
    adt = m.adts.get("types::data_type::DataType")
    if adt is None:
        cands = [k for k in m.adts if k.endswith("::DataType")]
        if len(cands) != 1:
            raise CheckError("DataType adt: %s" % cands)
        adt = m.adts[cands[0]]
    name = adt["adt"]
    disc = {v["name"]: int(v["discr"]) for v in adt["variants"]}
    sw = codec.int_switches(f, 10)
    if not sw:
        raise CheckError("deserialize_data_type switch not found")
    bb, arms, other, _ = max(sw, key=lambda x: len(x[1]))
    seen = set()
    for val, tgt in sorted(arms.items()):
        ev = codec.region_events(f, codec.dominated(f, tgt))
        mk = [e["variant"] for e in ev if e["k"] == "mk" and e["adt"] == name]
        ok = len(mk) == 1 and disc.get(mk[0]) == val
        seen.update(mk)
        ctx.ob(rule + ".DATATYPE-BYTE", str(val), ok, "byte %d -> DataType::%s (its discriminant)" % (val, mk[0]) if ok else
               "byte %d decodes to %s whose `as u8` value is %s" % (val, mk, [disc.get(x) for x in mk]), "%s:%s" % (f.file, f.blocks[tgt].get("l")))
    missing = sorted(set(disc) - seen)
    ctx.ob(rule + ".DATATYPE-COMPLETE", name, not missing, "every DataType variant has a reader arm (%d)" % len(disc) if not missing else
           "DataType variants without a reader arm: %s (a table using them cannot be reloaded)" % missing, f.loc())
    ctx.floor(rule + ".datatype_arms", len(arms), 30)
    # Constraint tags
    wf, rf = m.fn(CP + "serialize_constraint"), m.fn(CP + "deserialize_constraint")
    cadt = [k for k in m.adts if k.endswith("::Constraint") and k.startswith("schema")]
    if len(cadt) != 1:
        raise CheckError("Constraint adt: %s" % cadt)
    cadt = cadt[0]
    sws = codec.enum_switches(wf, cadt, m)
    if not sws:
        raise CheckError("serialize_constraint dispatch not found")
    _, warms, _ = max(sws, key=lambda x: len(x[1]))
    wtag = {}
    tags = codec.push_tags(wf, m)
    for v, tgt in warms.items():
        reg = set(codec.dominated(wf, tgt))
        ts = [val for c, nm, val in tags if c.bb in reg]
        if ts:
            wtag[v] = min(ts, key=lambda x: 0) if len(set(ts)) == 1 else ts[0]
            first = sorted([(c.line, val) for c, nm, val in tags if c.bb in reg])[0][1]
            wtag[v] = first
    rsw = codec.int_switches(rf, 3)
    if not rsw:
        raise CheckError("deserialize_constraint switch not found")
    _, rarms, _, _ = max(rsw, key=lambda x: len(x[1]))
    for v, t in sorted(wtag.items()):
        tgt = rarms.get(t)
        mk = []
        if tgt is not None:
            ev = codec.region_events(rf, codec.dominated(rf, tgt))
            mk = [e["variant"] for e in ev if e["k"] == "mk" and e["adt"] == cadt]
        ok = tgt is not None and v in mk
        ctx.ob(rule + ".CONSTRAINT-TAG", v, ok, "Constraint::%s written as %d, read back as Constraint::%s" % (v, t, v) if ok else
               "Constraint::%s is written with tag %d but the reader arm builds %s" % (v, t, mk or "nothing"), wf.loc())
    ctx.floor(rule + ".constraint_variants", len(wtag), 5)
    inj = {}
    for v, t in wtag.items():
        inj.setdefault(t, []).append(v)
    for t, vs in inj.items():
        if len(vs) > 1:
            ctx.ob(rule + ".CONSTRAINT-TAG-INJECTIVE", str(t), False, "tag %d written for %s" % (t, vs), wf.loc())
    # referential action: encode value per variant == decode arm
    ef, df = m.fn(CP + "encode_referential_action"), m.fn(CP + "decode_referential_action")
    radt = [k for k in m.adts if k.endswith("::ReferentialAction")]
    if len(radt) == 1:
        radt = radt[0]
        enc = {}
        for _, arms_, _ in codec.enum_switches(ef, radt, m):
            for v, tgt in arms_.items():
                for b in codec.dominated(ef, tgt):
                    for s in ef.blocks[b]["s"]:
                        if s[0] == "=" and s[1][0] == 0 and s[2][0] == "use" and s[2][1][0] == "k" and s[2][1][4] is not None:
                            enc[v] = s[2][1][4]
        dsw = codec.int_switches(df, 3)
        if enc and dsw:
            _, darms, _, _ = max(dsw, key=lambda x: len(x[1]))
            for v, t in sorted(enc.items()):
                tgt = darms.get(t)
                mk = []
                if tgt is not None:
                    mk = [e["variant"] for e in codec.region_events(df, codec.dominated(df, tgt)) if e["k"] == "mk" and e["adt"] == radt]
                ctx.ob(rule + ".REF-ACTION", v, v in mk, "ReferentialAction::%s <-> %d" % (v, t) if v in mk else
                       "ReferentialAction::%s encoded as %d decodes to %s" % (v, t, mk or "None"), ef.loc())


def schema_restore(ctx, rule):
    """loading a catalog that contains a schema Catalog::new does not pre-create must succeed: under the assumption that the
    lookup of the schema name fails, deserialize still has a success path and it passes a schema-inserting call"""
    m = ctx.m
    f = m.fn(CP + "deserialize")
    A = [call_named("Catalog::get_schema_mut", 0, desc="schema not pre-created (lookup is None)"),
         call_named("Catalog::schema_exists", False, desc="schema not pre-created")]
    cuts, applied = assumed_cuts(f, A)
    inserts = [c for c in f.calls if c.name.endswith("Catalog::restore_schema") or c.name.endswith("Catalog::create_schema")
               or (c.name.endswith("::insert") and "HashMap" in c.name)]
    if not applied:
        ctx.ob(rule, f.id, bool(inserts), "schemas are inserted unconditionally" if inserts else "no schema lookup and no insertion found", f.loc())
        return
    # blocks on the None arm
    r = f.reachable([0], cut_edges=cuts)
    ins_reach = [c for c in inserts if c.bb in r]
    succ = success_escapes(f, [0], [], cuts, limit=1)
    ok = bool(ins_reach) and bool(succ)
    ctx.ob(rule, f.id, ok, "a schema missing from the fresh catalog is inserted and loading continues" if ok else
           "a serialized schema that Catalog::new does not pre-create makes deserialize fail: CREATE SCHEMA followed by reopen "
           "loses the whole database", f.loc())


def arg_order(ctx, rule, scope_pred, min_sites=5):
    """calls to crate functions whose parameters share a type: when the caller's argument variables carry the callee's
    parameter names, they must be in the callee's order (swapped same-typed arguments are invisible to the type checker)"""
    m = ctx.m
    n = 0
    pn_cache = {}

    def pnames(g):
        if g.key not in pn_cache:
            d = {}
            for nm, pl in g.dbg:
                if not pl[1] and 1 <= pl[0] <= g.nargs:
                    d[pl[0]] = nm
            pn_cache[g.key] = d
        return pn_cache[g.key]

    def vname(f, op):
        pl = operand_place(op)
        hops = 0
        while pl is not None and hops < 6:
            hops += 1
            if pl[1] and pl[1] != ["*"]:
                return None
            names = [nm for nm, p in f.dbg if p[0] == pl[0] and not p[1]]
            if names:
                return names[0]
            ds = f.defs().get(pl[0], [])
            if len(ds) != 1 or ds[0][0] != "stmt":
                return None
            rv = ds[0][3]
            pl = operand_place(rv[1]) if rv[0] == "use" else rv[2] if rv[0] in ("ref", "ptr") else operand_place(rv[2]) if rv[0] == "cast" else None
        return None

    for f in sorted(m.fns.values(), key=lambda f: f.id):
        if not scope_pred(f):
            continue
        for c in f.calls:
            g = m.fns.get(c.name)
            if g is None or g.nargs < 2:
                continue
            pn = pnames(g)
            if len(pn) < 2:
                continue
            tys = {i: g.locals[i] for i in pn}
            actual = {}
            for i, a in enumerate(c.args, 1):
                if i in pn:
                    v = vname(f, a)
                    if v:
                        actual[i] = v
            same = [(i, j) for i in actual for j in actual if i < j and tys[i] == tys[j]]
            if not same:
                continue
            n += 1
            bad = [(i, j) for i, j in same if actual[i] == pn[j] and actual[j] == pn[i] and pn[i] != pn[j]]
            # also: an argument named like another same-typed parameter while that parameter's own name is passed elsewhere
            ctx.ob(rule, "%s->%s@%s" % (f.id, g.id.rsplit("::", 1)[-1], ",".join(actual[i] for i in sorted(actual))), not bad,
                   "same-typed arguments passed in parameter order" if not bad else
                   "arguments %s and %s are swapped relative to the callee's parameters (%s, %s) — both have type %s" %
                   (actual[bad[0][0]], actual[bad[0][1]], pn[bad[0][0]], pn[bad[0][1]], tys[bad[0][0]]), c.loc())
    ctx.floor(rule + ".sites", n, min_sites)


def const_true(f, c):
    """second argument of a builder call is the constant `true`"""
    from paths import const_value
    if len(c.args) < 2:
        return False
    v = const_value(f, c.args[1])
    return v == 1 or v is True
