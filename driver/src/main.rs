// turdb-facts: rustc_private driver that dumps the resolved program of crate `turdb`
// (MIR CFGs with resolved callees, places with field names, constants with values,
// plus a few HIR idioms) as JSON lines.  It never runs TurDB code.
//
// Used as RUSTC_WORKSPACE_WRAPPER: argv = [driver, rustc, rustc-args...].
// Output file: $TURDB_FACTS_OUT (one write per process, after analysis).
#![feature(rustc_private)]
#![allow(clippy::all)]

extern crate rustc_abi;
extern crate rustc_driver;
extern crate rustc_hir;
extern crate rustc_interface;
extern crate rustc_middle;
extern crate rustc_session;
extern crate rustc_span;

use rustc_driver::Compilation;
use rustc_hir as hir;
use rustc_hir::def::DefKind;
use rustc_hir::intravisit::{self, Visitor};
use rustc_interface::interface::Compiler;
use rustc_middle::mir::{
    self, AggregateKind, AssertKind, BasicBlock, Body, Const, Operand, Place, ProjectionElem,
    Rvalue, StatementKind, TerminatorKind, UnwindAction,
};
use rustc_middle::ty::print::with_no_trimmed_paths;
use rustc_middle::ty::{self, Instance, Ty, TyCtxt, TypingEnv};
use rustc_span::def_id::{DefId, LocalDefId, LOCAL_CRATE};
use rustc_span::Span;
use std::fmt::Write as _;

fn esc(s: &str, out: &mut String) {
    out.push('"');
    for c in s.chars() {
        match c {
            '"' => out.push_str("\\\""),
            '\\' => out.push_str("\\\\"),
            '\n' => out.push_str("\\n"),
            '\r' => out.push_str("\\r"),
            '\t' => out.push_str("\\t"),
            c if (c as u32) < 0x20 => {
                let _ = write!(out, "\\u{:04x}", c as u32);
            }
            c => out.push(c),
        }
    }
    out.push('"');
}

fn js(s: &str) -> String {
    let mut o = String::with_capacity(s.len() + 2);
    esc(s, &mut o);
    o
}

struct Cx<'tcx> {
    tcx: TyCtxt<'tcx>,
}

impl<'tcx> Cx<'tcx> {
    fn span_loc(&self, sp: Span) -> (String, usize, bool) {
        let sm = self.tcx.sess.source_map();
        let from_exp = sp.from_expansion();
        // resolve to the outermost call site for macro-expanded code so that reports point
        // at repository source
        let sp2 = sp.source_callsite();
        let loc = sm.lookup_char_pos(sp2.lo());
        let f = match &loc.file.name {
            rustc_span::FileName::Real(r) => match r.local_path() {
                Some(p) => p.to_string_lossy().to_string(),
                None => format!("{:?}", r),
            },
            other => format!("{:?}", other),
        };
        (f, loc.line, from_exp)
    }

    fn ty_s(&self, t: Ty<'tcx>) -> String {
        format!("{}", t)
    }

    fn place(&self, body: &Body<'tcx>, p: &Place<'tcx>) -> String {
        // [local, [proj...]]
        let mut s = String::new();
        let _ = write!(s, "[{},[", p.local.as_usize());
        let mut first = true;
        let mut cur_ty = mir::PlaceTy::from_ty(body.local_decls[p.local].ty);
        for elem in p.projection.iter() {
            if !first {
                s.push(',');
            }
            first = false;
            match elem {
                ProjectionElem::Deref => s.push_str("\"*\""),
                ProjectionElem::Field(f, _fty) => {
                    let mut name = String::new();
                    match cur_ty.ty.kind() {
                        ty::Adt(adt, _) => {
                            let vidx = cur_ty.variant_index.unwrap_or(rustc_abi::FIRST_VARIANT);
                            if adt.is_enum() || adt.is_struct() || adt.is_union() {
                                if let Some(v) = adt.variants().get(vidx) {
                                    if let Some(fd) = v.fields.get(f) {
                                        name = format!(
                                            "{}::{}",
                                            self.tcx.def_path_str(adt.did()),
                                            fd.name
                                        );
                                        if adt.is_enum() {
                                            name = format!(
                                                "{}::{}::{}",
                                                self.tcx.def_path_str(adt.did()),
                                                v.name,
                                                fd.name
                                            );
                                        }
                                    }
                                }
                            }
                        }
                        ty::Closure(..) => name = "closure_capture".to_string(),
                        ty::Tuple(..) => name = "tuple".to_string(),
                        _ => {}
                    }
                    let _ = write!(s, "[\"f\",{},{}]", f.as_usize(), js(&name));
                }
                ProjectionElem::Index(l) => {
                    let _ = write!(s, "[\"i\",{}]", l.as_usize());
                }
                ProjectionElem::ConstantIndex { offset, min_length: _, from_end } => {
                    let _ = write!(s, "[\"c\",{},{}]", offset, from_end);
                }
                ProjectionElem::Subslice { from, to, from_end } => {
                    let _ = write!(s, "[\"s\",{},{},{}]", from, to, from_end);
                }
                ProjectionElem::Downcast(name, vidx) => {
                    let n = name.map(|n| n.to_string()).unwrap_or_default();
                    let _ = write!(s, "[\"d\",{},{}]", js(&n), vidx.as_usize());
                }
                _ => s.push_str("[\"o\"]"),
            }
            cur_ty = cur_ty.projection_ty(self.tcx, elem);
        }
        s.push_str("]]");
        s
    }

    fn constant(&self, did: DefId, c: &mir::ConstOperand<'tcx>) -> String {
        // ["k", display, type, fn_def_path|null, int value|null, const_name|null]
        let ty = c.const_.ty();
        let mut fnpath = "null".to_string();
        let mut fnargs = "null".to_string();
        match ty.kind() {
            ty::FnDef(d, args) => {
                fnpath = js(&self.tcx.def_path_str(*d));
                fnargs = js(&self.tcx.def_path_str_with_args(*d, args));
            }
            _ => {}
        }
        let mut name = "null".to_string();
        if let Const::Unevaluated(uv, _) = c.const_ {
            if uv.promoted.is_none() {
                name = js(&self.tcx.def_path_str(uv.def));
            } else {
                name = js("<promoted>");
            }
        }
        let mut val = "null".to_string();
        let is_scalar_ty = ty.is_integral() || ty.is_bool() || ty.is_char();
        if is_scalar_ty {
            let env = TypingEnv::post_analysis(self.tcx, did);
            if let Some(si) = c.const_.try_eval_scalar_int(self.tcx, env) {
                let size = si.size();
                if ty.is_signed() {
                    val = format!("{}", si.to_int(size));
                } else {
                    val = format!("{}", si.to_uint(size));
                }
            }
        }
        let disp = if fnpath != "null" { String::new() } else { format!("{}", c.const_) };
        let disp = if disp.len() > 200 { disp[..200.min(disp.len())].to_string() } else { disp };
        format!(
            "[\"k\",{},{},{},{},{},{}]",
            js(&disp),
            js(&self.ty_s(ty)),
            fnpath,
            val,
            name,
            fnargs
        )
    }

    fn operand(&self, did: DefId, body: &Body<'tcx>, o: &Operand<'tcx>) -> String {
        match o {
            Operand::Copy(p) => format!("[\"c\",{}]", self.place(body, p)),
            Operand::Move(p) => format!("[\"m\",{}]", self.place(body, p)),
            Operand::Constant(c) => self.constant(did, c),
            #[allow(unreachable_patterns)]
            _ => "[\"x\"]".to_string(),
        }
    }

    fn rvalue(&self, did: DefId, body: &Body<'tcx>, rv: &Rvalue<'tcx>) -> String {
        match rv {
            Rvalue::Use(o, ..) => format!("[\"use\",{}]", self.operand(did, body, o)),
            Rvalue::Repeat(o, n) => {
                format!("[\"rep\",{},{}]", self.operand(did, body, o), js(&format!("{}", n)))
            }
            Rvalue::Ref(_, bk, p) => {
                let m = matches!(bk, mir::BorrowKind::Mut { .. });
                format!("[\"ref\",{},{}]", m, self.place(body, p))
            }
            Rvalue::RawPtr(k, p) => {
                format!("[\"ptr\",{},{}]", js(&format!("{:?}", k)), self.place(body, p))
            }
            Rvalue::Cast(k, o, t) => format!(
                "[\"cast\",{},{},{}]",
                js(&format!("{:?}", k)),
                self.operand(did, body, o),
                js(&self.ty_s(*t))
            ),
            Rvalue::BinaryOp(op, ab) => format!(
                "[\"bin\",{},{},{}]",
                js(&format!("{:?}", op)),
                self.operand(did, body, &ab.0),
                self.operand(did, body, &ab.1)
            ),
            Rvalue::UnaryOp(op, a) => {
                format!("[\"un\",{},{}]", js(&format!("{:?}", op)), self.operand(did, body, a))
            }
            Rvalue::Discriminant(p) => format!("[\"disc\",{}]", self.place(body, p)),
            Rvalue::Aggregate(k, ops) => {
                let (kind, name, variant) = match &**k {
                    AggregateKind::Array(_) => ("array", String::new(), String::new()),
                    AggregateKind::Tuple => ("tuple", String::new(), String::new()),
                    AggregateKind::Adt(d, v, _, _, _) => {
                        let adt = self.tcx.adt_def(*d);
                        let vn = adt.variant(*v).name.to_string();
                        ("adt", self.tcx.def_path_str(*d), vn)
                    }
                    AggregateKind::Closure(d, _) => {
                        ("closure", self.tcx.def_path_str(*d), String::new())
                    }
                    AggregateKind::Coroutine(d, _) => {
                        ("coroutine", self.tcx.def_path_str(*d), String::new())
                    }
                    AggregateKind::CoroutineClosure(d, _) => {
                        ("coroutine_closure", self.tcx.def_path_str(*d), String::new())
                    }
                    AggregateKind::RawPtr(..) => ("rawptr", String::new(), String::new()),
                };
                let mut s = format!("[\"agg\",{},{},{},[", js(kind), js(&name), js(&variant));
                for (i, o) in ops.iter().enumerate() {
                    if i > 0 {
                        s.push(',');
                    }
                    s.push_str(&self.operand(did, body, o));
                }
                s.push_str("]]");
                s
            }
            Rvalue::CopyForDeref(p) => format!("[\"use\",[\"c\",{}]]", self.place(body, p)),
            Rvalue::ThreadLocalRef(d) => {
                format!("[\"tls\",{}]", js(&self.tcx.def_path_str(*d)))
            }
            other => format!("[\"other\",{}]", js(&format!("{:?}", other).chars().take(120).collect::<String>())),
        }
    }

    fn unwind(&self, u: &UnwindAction) -> String {
        match u {
            UnwindAction::Cleanup(b) => format!("{}", b.as_usize()),
            _ => "null".to_string(),
        }
    }

    fn bb(&self, b: Option<BasicBlock>) -> String {
        match b {
            Some(b) => format!("{}", b.as_usize()),
            None => "null".to_string(),
        }
    }

    fn callee(&self, did: DefId, body: &Body<'tcx>, func: &Operand<'tcx>) -> String {
        // {"p": generic def path, "pa": path with args (as written), "rp": resolved def path,
        //  "rpa": resolved with args, "r": resolved?, "ind": indirect operand}
        let fty = func.ty(&body.local_decls, self.tcx);
        match fty.kind() {
            ty::FnDef(d, args) => {
                let p = self.tcx.def_path_str(*d);
                let pa = self.tcx.def_path_str_with_args(*d, args);
                let env = TypingEnv::post_analysis(self.tcx, did);
                let mut rp = String::new();
                let mut rpa = String::new();
                let mut resolved = false;
                let mut local = d.is_local();
                // try_resolve can ICE on args with escaping bound vars; guard lightly
                if !args.has_escaping_bound_vars_compat() {
                    if let Ok(Some(inst)) = Instance::try_resolve(self.tcx, env, *d, args) {
                        let rd = inst.def_id();
                        rp = self.tcx.def_path_str(rd);
                        rpa = self.tcx.def_path_str_with_args(rd, inst.args);
                        resolved = true;
                        local = rd.is_local();
                        if let ty::InstanceKind::Virtual(..) = inst.def {
                            resolved = false;
                        }
                    }
                }
                let is_trait_method = self.tcx.trait_of_assoc(*d).is_some();
                format!(
                    "{{\"p\":{},\"pa\":{},\"rp\":{},\"rpa\":{},\"r\":{},\"tm\":{},\"local\":{}}}",
                    js(&p),
                    js(&pa),
                    js(&rp),
                    js(&rpa),
                    resolved,
                    is_trait_method,
                    local
                )
            }
            _ => format!(
                "{{\"p\":null,\"ind\":{},\"ity\":{}}}",
                self.operand(did, body, func),
                js(&self.ty_s(fty))
            ),
        }
    }

    fn assert_kind(&self, did: DefId, body: &Body<'tcx>, k: &AssertKind<Operand<'tcx>>) -> String {
        let op = |o: &Operand<'tcx>| {
            format!(
                "{{\"o\":{},\"ty\":{}}}",
                self.operand(did, body, o),
                js(&self.ty_s(o.ty(&body.local_decls, self.tcx)))
            )
        };
        match k {
            AssertKind::BoundsCheck { len, index } => {
                format!("[\"bounds\",{},{}]", op(len), op(index))
            }
            AssertKind::Overflow(b, x, y) => {
                format!("[\"overflow\",{},{},{}]", js(&format!("{:?}", b)), op(x), op(y))
            }
            AssertKind::OverflowNeg(x) => format!("[\"overflow_neg\",{}]", op(x)),
            AssertKind::DivisionByZero(x) => format!("[\"div_zero\",{}]", op(x)),
            AssertKind::RemainderByZero(x) => format!("[\"rem_zero\",{}]", op(x)),
            other => format!("[\"other\",{}]", js(&format!("{:?}", other).chars().take(80).collect::<String>())),
        }
    }

    fn body(&self, did: DefId, body: &Body<'tcx>, out: &mut String) {
        out.push_str("\"locals\":[");
        for (i, d) in body.local_decls.iter().enumerate() {
            if i > 0 {
                out.push(',');
            }
            esc(&self.ty_s(d.ty), out);
        }
        out.push_str("],\"dbg\":[");
        let mut first = true;
        for v in body.var_debug_info.iter() {
            if let mir::VarDebugInfoContents::Place(p) = &v.value {
                if !first {
                    out.push(',');
                }
                first = false;
                let _ = write!(out, "[{},{}]", js(&v.name.to_string()), self.place(body, p));
            }
        }
        let _ = write!(out, "],\"nargs\":{},\"blocks\":[", body.arg_count);
        for (bi, bbd) in body.basic_blocks.iter().enumerate() {
            if bi > 0 {
                out.push(',');
            }
            out.push_str("{\"s\":[");
            let mut first = true;
            for st in bbd.statements.iter() {
                let s = match &st.kind {
                    StatementKind::Assign(b) => {
                        let (p, rv) = &**b;
                        let (_, line, _) = self.span_loc(st.source_info.span);
                        Some(format!(
                            "[\"=\",{},{},{}]",
                            self.place(body, p),
                            self.rvalue(did, body, rv),
                            line
                        ))
                    }
                    StatementKind::SetDiscriminant { place, variant_index } => Some(format!(
                        "[\"setdisc\",{},{}]",
                        self.place(body, place),
                        variant_index.as_usize()
                    )),
                    StatementKind::StorageDead(l) => Some(format!("[\"dead\",{}]", l.as_usize())),
                    StatementKind::Intrinsic(i) => Some(format!(
                        "[\"intr\",{}]",
                        js(&format!("{:?}", i).chars().take(80).collect::<String>())
                    )),
                    _ => None,
                };
                if let Some(s) = s {
                    if !first {
                        out.push(',');
                    }
                    first = false;
                    out.push_str(&s);
                }
            }
            out.push_str("],\"t\":");
            let term = bbd.terminator();
            let (_, tline, texp) = self.span_loc(term.source_info.span);
            let t = match &term.kind {
                TerminatorKind::Goto { target } => format!("[\"goto\",{}]", target.as_usize()),
                TerminatorKind::SwitchInt { discr, targets } => {
                    let mut s = format!(
                        "[\"switch\",{},{},[",
                        self.operand(did, body, discr),
                        js(&self.ty_s(discr.ty(&body.local_decls, self.tcx)))
                    );
                    for (i, (v, t)) in targets.iter().enumerate() {
                        if i > 0 {
                            s.push(',');
                        }
                        let _ = write!(s, "[{},{}]", v, t.as_usize());
                    }
                    let _ = write!(s, "],{}]", targets.otherwise().as_usize());
                    s
                }
                TerminatorKind::Return => "[\"ret\"]".to_string(),
                TerminatorKind::Unreachable => "[\"unreach\"]".to_string(),
                TerminatorKind::UnwindResume => "[\"resume\"]".to_string(),
                TerminatorKind::UnwindTerminate(_) => "[\"terminate\"]".to_string(),
                TerminatorKind::Drop { place, target, unwind, .. } => {
                    let pty = place.ty(&body.local_decls, self.tcx).ty;
                    format!(
                        "[\"drop\",{},{},{},{}]",
                        self.place(body, place),
                        target.as_usize(),
                        self.unwind(unwind),
                        js(&self.ty_s(pty))
                    )
                }
                TerminatorKind::Call { func, args, destination, target, unwind, fn_span, .. } => {
                    let mut s = format!("[\"call\",{},[", self.callee(did, body, func));
                    for (i, a) in args.iter().enumerate() {
                        if i > 0 {
                            s.push(',');
                        }
                        s.push_str(&self.operand(did, body, &a.node));
                    }
                    let (_, cl, cexp) = self.span_loc(*fn_span);
                    let _ = write!(
                        s,
                        "],{},{},{},{},{}]",
                        self.place(body, destination),
                        self.bb(*target),
                        self.unwind(unwind),
                        cl,
                        cexp
                    );
                    s
                }
                TerminatorKind::TailCall { func, .. } => {
                    format!("[\"tailcall\",{}]", self.callee(did, body, func))
                }
                TerminatorKind::Assert { cond, expected, msg, target, .. } => format!(
                    "[\"assert\",{},{},{},{},{},{}]",
                    self.operand(did, body, cond),
                    expected,
                    self.assert_kind(did, body, msg),
                    target.as_usize(),
                    tline,
                    texp
                ),
                TerminatorKind::FalseEdge { real_target, .. } => {
                    format!("[\"goto\",{}]", real_target.as_usize())
                }
                TerminatorKind::FalseUnwind { real_target, .. } => {
                    format!("[\"goto\",{}]", real_target.as_usize())
                }
                other => format!(
                    "[\"other\",{}]",
                    js(&format!("{:?}", other).chars().take(80).collect::<String>())
                ),
            };
            out.push_str(&t);
            let _ = write!(out, ",\"c\":{},\"l\":{}}}", bbd.is_cleanup, tline);
        }
        out.push_str("]");
    }
}

// small compat shim: GenericArgs::has_escaping_bound_vars via TypeVisitableExt
trait EscCompat {
    fn has_escaping_bound_vars_compat(&self) -> bool;
}
impl<'tcx> EscCompat for ty::GenericArgsRef<'tcx> {
    fn has_escaping_bound_vars_compat(&self) -> bool {
        use rustc_middle::ty::TypeVisitableExt;
        self.has_escaping_bound_vars()
    }
}

// ---------------- HIR idioms: discarded Results ----------------
struct DiscardVisitor<'a, 'tcx> {
    tcx: TyCtxt<'tcx>,
    typeck: &'tcx ty::TypeckResults<'tcx>,
    cx: &'a Cx<'tcx>,
    out: Vec<String>,
}

impl<'a, 'tcx> DiscardVisitor<'a, 'tcx> {
    fn is_result(&self, t: Ty<'tcx>) -> bool {
        if let ty::Adt(adt, _) = t.kind() {
            return self.tcx.is_diagnostic_item(rustc_span::sym::Result, adt.did());
        }
        false
    }
    fn callee_of(&self, e: &'tcx hir::Expr<'tcx>) -> String {
        // innermost call producing the value
        match e.kind {
            hir::ExprKind::MethodCall(_, _, _, _) => {
                if let Some(d) = self.typeck.type_dependent_def_id(e.hir_id) {
                    return self.tcx.def_path_str(d);
                }
                String::new()
            }
            hir::ExprKind::Call(f, _) => {
                if let hir::ExprKind::Path(ref qp) = f.kind {
                    if let Some(d) = self.typeck.qpath_res(qp, f.hir_id).opt_def_id() {
                        return self.tcx.def_path_str(d);
                    }
                }
                String::new()
            }
            hir::ExprKind::DropTemps(inner) => self.callee_of(inner),
            hir::ExprKind::Block(b, _) => match b.expr {
                Some(inner) => self.callee_of(inner),
                None => String::new(),
            },
            _ => String::new(),
        }
    }
    fn receiver_chain(&self, e: &'tcx hir::Expr<'tcx>) -> String {
        // for `a.b().ok()` report callee of receiver
        if let hir::ExprKind::MethodCall(_, recv, _, _) = e.kind {
            return self.callee_of(recv);
        }
        String::new()
    }
    fn rec(&mut self, kind: &str, e: &'tcx hir::Expr<'tcx>, callee: String) {
        let (f, line, exp) = self.cx.span_loc(e.span);
        self.out.push(format!(
            "{{\"kind\":{},\"callee\":{},\"file\":{},\"line\":{},\"exp\":{},\"ty\":{}}}",
            js(kind),
            js(&callee),
            js(&f),
            line,
            exp,
            js(&format!("{}", self.typeck.expr_ty(e)))
        ));
    }
}

impl<'a, 'tcx> Visitor<'tcx> for DiscardVisitor<'a, 'tcx> {
    fn visit_stmt(&mut self, s: &'tcx hir::Stmt<'tcx>) {
        match s.kind {
            hir::StmtKind::Let(l) => {
                if let (hir::PatKind::Wild, Some(init)) = (&l.pat.kind, l.init) {
                    let t = self.typeck.expr_ty(init);
                    if self.is_result(t) {
                        let c = self.callee_of(init);
                        self.rec("let_wild", init, c);
                    }
                }
            }
            hir::StmtKind::Semi(e) => {
                let t = self.typeck.expr_ty(e);
                if self.is_result(t) {
                    // a Result-typed expression statement (unused_must_use)
                    if !matches!(e.kind, hir::ExprKind::Ret(..) | hir::ExprKind::Break(..)) {
                        let c = self.callee_of(e);
                        self.rec("semi_result", e, c);
                    }
                } else if let hir::ExprKind::MethodCall(seg, recv, _, _) = e.kind {
                    let rt = self.typeck.expr_ty(recv);
                    if self.is_result(rt) {
                        let n = seg.ident.name.as_str().to_string();
                        if n == "ok" || n == "err" || n == "is_ok" || n == "is_err"
                            || n == "unwrap_or_default"
                        {
                            let c = self.callee_of(recv);
                            self.rec(&format!("semi_{}", n), recv, c);
                        }
                    }
                }
            }
            _ => {}
        }
        intravisit::walk_stmt(self, s);
    }

    fn visit_expr(&mut self, e: &'tcx hir::Expr<'tcx>) {
        match e.kind {
            hir::ExprKind::If(cond, _then, els) => {
                if let hir::ExprKind::Let(le) = cond.kind {
                    let t = self.typeck.expr_ty(le.init);
                    if self.is_result(t) && els.is_none() {
                        // `if let Ok(..) = e { .. }` with no else: Err silently ignored
                        let mut is_ok_pat = false;
                        if let hir::PatKind::TupleStruct(ref qp, _, _) = le.pat.kind {
                            if let Some(d) = self.typeck.qpath_res(qp, le.pat.hir_id).opt_def_id() {
                                let p = self.tcx.def_path_str(d);
                                is_ok_pat = p.ends_with("Ok");
                            }
                        }
                        if is_ok_pat {
                            let c = self.callee_of(le.init);
                            self.rec("iflet_ok_noelse", le.init, c);
                        }
                    }
                }
            }
            hir::ExprKind::MethodCall(seg, recv, _, _) => {
                // `x.ok()` / `.unwrap_or(..)` / `.unwrap_or_default()` / `.unwrap_or_else(..)`
                // on a Result: error value is dropped; recorded as "soft" discards
                let rt = self.typeck.expr_ty(recv);
                if self.is_result(rt) {
                    let n = seg.ident.name.as_str().to_string();
                    if n == "ok" || n == "unwrap_or" || n == "unwrap_or_default" || n == "unwrap_or_else"
                        || n == "is_ok" || n == "is_err"
                    {
                        let c = self.callee_of(recv);
                        self.rec(&format!("soft_{}", n), recv, c);
                    }
                }
            }
            hir::ExprKind::Match(scrut, arms, src) => {
                let t = self.typeck.expr_ty(scrut);
                if self.is_result(t) && matches!(src, hir::MatchSource::Normal) {
                    // match with an `Err(_) =>` arm whose body is `{}` / `()` / a literal
                    for arm in arms.iter() {
                        if let hir::PatKind::TupleStruct(ref qp, sub, _) = arm.pat.kind {
                            if let Some(d) = self.typeck.qpath_res(qp, arm.pat.hir_id).opt_def_id() {
                                let p = self.tcx.def_path_str(d);
                                let wild = sub.len() == 1 && matches!(sub[0].kind, hir::PatKind::Wild);
                                if p.ends_with("Err") && wild {
                                    let c = self.callee_of(scrut);
                                    self.rec("match_err_wild", scrut, c);
                                }
                            }
                        }
                    }
                }
                let _ = self.receiver_chain(scrut);
            }
            _ => {}
        }
        intravisit::walk_expr(self, e);
    }
}

struct Cb;

impl rustc_driver::Callbacks for Cb {
    fn after_analysis<'tcx>(&mut self, _c: &Compiler, tcx: TyCtxt<'tcx>) -> Compilation {
        let name = tcx.crate_name(LOCAL_CRATE).to_string();
        let want = std::env::var("TURDB_FACTS_CRATE").unwrap_or_else(|_| "turdb".to_string());
        if name != want {
            return Compilation::Continue;
        }
        let is_lib = tcx.crate_types().iter().any(|t| matches!(t, rustc_session::config::CrateType::Rlib | rustc_session::config::CrateType::Dylib | rustc_session::config::CrateType::Cdylib | rustc_session::config::CrateType::StaticLib));
        if !is_lib {
            return Compilation::Continue;
        }
        let out_path = match std::env::var("TURDB_FACTS_OUT") {
            Ok(p) => p,
            Err(_) => return Compilation::Continue,
        };
        let nonce = std::env::var("TURDB_FACTS_NONCE").unwrap_or_default();
        let mut buf = String::with_capacity(64 << 20);
        with_no_trimmed_paths!({
            let cx = Cx { tcx };
            let _ = writeln!(buf, "{{\"header\":true,\"crate\":{},\"nonce\":{}}}", js(&name), js(&nonce));
            let mut nfn = 0usize;
            for ldid in tcx.mir_keys(()).iter().copied() {
                let ldid: LocalDefId = ldid;
                let did = ldid.to_def_id();
                let kind = tcx.def_kind(did);
                let kstr = match kind {
                    DefKind::Fn => "fn",
                    DefKind::AssocFn => "assoc",
                    DefKind::Closure => "closure",
                    _ => continue,
                };
                // skip constructors and const contexts
                if tcx.hir_body_const_context(ldid).is_some() && !matches!(kind, DefKind::Closure) {
                    // const fn: still has runtime MIR; keep only if it is a const fn (not a const item)
                    if !tcx.is_const_fn(did) {
                        continue;
                    }
                }
                if !tcx.is_mir_available(did) {
                    continue;
                }
                let body = tcx.optimized_mir(did);
                let (file, line, _) = cx.span_loc(tcx.def_span(did));
                let path = tcx.def_path_str(did);
                let vis = if matches!(kind, DefKind::Fn | DefKind::AssocFn) {
                    let v = tcx.visibility(did);
                    if v.is_public() { "pub" } else { "restricted" }
                } else {
                    "closure"
                };
                let mut parent = String::new();
                if matches!(kind, DefKind::Closure) {
                    let p = tcx.typeck_root_def_id(did);
                    parent = tcx.def_path_str(p);
                }
                let mut self_ty = String::new();
                let mut trait_path = String::new();
                if matches!(kind, DefKind::AssocFn) {
                    let container = tcx.parent(did);
                    match tcx.def_kind(container) {
                        DefKind::Impl { of_trait } => {
                            self_ty = format!("{}", tcx.type_of(container).instantiate_identity().skip_norm_wip());
                            if of_trait {
                                let tr = tcx.impl_trait_ref(container);
                                trait_path = tcx.def_path_str(tr.instantiate_identity().skip_norm_wip().def_id);
                            }
                        }
                        DefKind::Trait => {
                            trait_path = tcx.def_path_str(container);
                            self_ty = "Self".to_string();
                        }
                        _ => {}
                    }
                }
                let ret = format!("{}", body.return_ty());
                let _ = write!(
                    buf,
                    "{{\"id\":{},\"kind\":{},\"vis\":{},\"file\":{},\"line\":{},\"parent\":{},\"self_ty\":{},\"trait\":{},\"ret\":{},",
                    js(&path), js(kstr), js(vis), js(&file), line, js(&parent), js(&self_ty), js(&trait_path), js(&ret)
                );
                cx.body(did, body, &mut buf);
                // HIR discards
                let typeck = tcx.typeck(ldid);
                let hbody = tcx.hir_body_owned_by(ldid);
                let mut v = DiscardVisitor { tcx, typeck, cx: &cx, out: Vec::new() };
                v.visit_body(hbody);
                buf.push_str(",\"discards\":[");
                buf.push_str(&v.out.join(","));
                buf.push_str("]}\n");
                nfn += 1;
            }
            // struct/enum table: field names and types (for COUNTER/WHO rules)
            for id in tcx.hir_free_items() {
                let did = id.owner_id.to_def_id();
                match tcx.def_kind(did) {
                    DefKind::Struct | DefKind::Enum => {
                        let adt = tcx.adt_def(did);
                        let mut s = format!("{{\"adt\":{},\"kind\":{},\"variants\":[", js(&tcx.def_path_str(did)), js(if adt.is_enum() {"enum"} else {"struct"}));
                        for (i, v) in adt.variants().iter().enumerate() {
                            if i > 0 { s.push(','); }
                            let dval = if adt.is_enum() { format!("{}", adt.discriminant_for_variant(tcx, rustc_abi::VariantIdx::from_usize(i)).val) } else { "0".to_string() };
                            let _ = write!(s, "{{\"name\":{},\"discr\":{},\"fields\":[", js(&v.name.to_string()), js(&dval));
                            for (j, f) in v.fields.iter().enumerate() {
                                if j > 0 { s.push(','); }
                                let fty = tcx.type_of(f.did).instantiate_identity().skip_norm_wip();
                                let _ = write!(s, "[{},{},{}]", js(&f.name.to_string()), js(&format!("{}", fty)), js(if tcx.visibility(f.did).is_public() {"pub"} else {"restricted"}));
                            }
                            s.push_str("]}");
                        }
                        s.push_str("]}\n");
                        buf.push_str(&s);
                    }
                    DefKind::Const { .. } => {
                        // named integer constants with values (tag tables)
                        let ty = tcx.type_of(did).instantiate_identity().skip_norm_wip();
                        if ty.is_integral() || ty.is_bool() {
                            if let Ok(v) = tcx.const_eval_poly(did) {
                                if let Some(si) = v.try_to_scalar_int() {
                                    let sz = si.size();
                                    let val = if ty.is_signed() { format!("{}", si.to_int(sz)) } else { format!("{}", si.to_uint(sz)) };
                                    let _ = writeln!(buf, "{{\"const\":{},\"ty\":{},\"val\":{}}}", js(&tcx.def_path_str(did)), js(&format!("{}", ty)), val);
                                }
                            }
                        }
                    }
                    _ => {}
                }
            }
            let _ = writeln!(buf, "{{\"trailer\":true,\"functions\":{}}}", nfn);
        });
        if let Err(e) = std::fs::write(&out_path, buf.as_bytes()) {
            eprintln!("turdb-facts: cannot write {}: {}", out_path, e);
            std::process::exit(3);
        }
        Compilation::Continue
    }
}

fn main() {
    let mut args: Vec<String> = std::env::args().collect();
    // RUSTC_WORKSPACE_WRAPPER: argv[1] is the real rustc path
    if args.len() > 1 && (args[1].ends_with("rustc") || args[1].contains("/rustc")) {
        args.remove(1);
    }
    rustc_driver::run_compiler(&args, &mut Cb);
}
